#!/venv/bin/python
"""Confirm sub-agent mutants and run our checks against them.
usage: tools/eval_mutants.py <prop> [k ...]     (worktree /tmp/wt-<prop>, mutants in out/<k>/)
"""
import json, os, re, subprocess, sys

HERE = os.path.dirname(os.path.dirname(os.path.abspath(__file__)))


def sh(cmd, cwd=None, env=None, timeout=3000):
    p = subprocess.run(cmd, shell=True, cwd=cwd, env=env, stdout=subprocess.PIPE, stderr=subprocess.STDOUT, text=True,
                       timeout=timeout)
    return p.returncode, p.stdout


def main():
    prop = sys.argv[1]
    wt = '/tmp/%s-%s' % (os.environ.get('WT_PREFIX', 'wt'), prop)
    ks = sys.argv[2:] or sorted(d for d in os.listdir(os.path.join(wt, 'out')) if d.isdigit())
    tier = os.environ.get('TIER', 'quick')
    out = {}
    for k in ks:
        d = os.path.join(wt, 'out', k)
        res = {}
        sh('git checkout -- .', cwd=wt)
        rc, o = sh('/venv/bin/python out/%s/demo.py' % k, cwd=wt, timeout=600)
        res['demo_clean_rc'] = rc
        rc, o = sh('git apply out/%s/patch.diff' % k, cwd=wt)
        res['applies'] = rc == 0
        if rc == 0:
            rc, o = sh('/venv/bin/python out/%s/demo.py' % k, cwd=wt, timeout=600)
            res['demo_patched_rc'] = rc
            if not os.environ.get('SKIP_TESTS'):
                rc, o = sh('/venv/bin/python -m pytest -q -p no:cacheprovider --timeout=900 --continue-on-collection-errors '
                           '2>&1 | tail -40', cwd=wt, timeout=1800)
                m = re.search(r'(\d+) failed, (\d+) passed.*?(\d+) errors?', o)
                res['suite'] = m.group(0) if m else o[-200:]
                res['suite_same'] = bool(m and m.group(1) == '9' and m.group(2) == '153' and m.group(3) == '3')
            env = dict(os.environ)
            env.update({'VERIF_REPO': wt, 'VERIF_SCRATCH_EVIDENCE': '1'})
            props = [prop] + [p for p in os.environ.get('ALSO', '').split(',') if p]
            res['checks'] = {}
            for pr in props:
                rc, o = sh('%s/check %s --tier %s --no-shrink' % (HERE, pr, tier), env=env)
                viol = [ln for ln in o.splitlines() if ln.startswith('VIOLATION')]
                res['checks'][pr] = {'rc': rc, 'classes': len(viol), 'first': viol[0][:230] if viol else None,
                                     'tail': o.splitlines()[-1][:200] if o.splitlines() else ''}
            res['caught'] = res['checks'][prop]['rc'] == 1 and res['checks'][prop]['classes'] > 0
        sh('git checkout -- .', cwd=wt)
        out[k] = res
        print('%s/%s confirmed=%s caught=%s  %s' % (prop, k, res.get('demo_clean_rc') == 0 and res.get('demo_patched_rc', 0) != 0
                                                  and res.get('suite_same', True), res.get('caught'),
                                                  json.dumps(res.get('checks', {}))[:400]), flush=True)
    # a partial re-run (explicit k list) never overwrites the full evaluation
    with open('/tmp/eval-%s-%s%s.json' % (os.environ.get('WT_PREFIX', 'wt'), prop, '-partial' if sys.argv[2:] else ''), 'w') as f:
        json.dump(out, f, indent=1)


main()
