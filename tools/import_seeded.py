#!/venv/bin/python
"""Copy confirmed sub-agent mutants from /tmp/wt-<prop>/out/<k> into /verif/seeded/<prop>-s<k>/"""
import json, os, shutil, sys
HERE = os.path.dirname(os.path.dirname(os.path.abspath(__file__)))
PFX = os.environ.get('WT_PREFIX', 'wt')
TAG = os.environ.get('ROUND_TAG', 's')
for prop in sys.argv[1:]:
    ev = json.load(open('/tmp/eval-%s-%s.json' % (PFX, prop)))
    for k, res in sorted(ev.items()):
        src = '/tmp/%s-%s/out/%s' % (PFX, prop, k)
        confirmed = res.get('demo_clean_rc') == 0 and res.get('demo_patched_rc', 0) != 0 and res.get('suite_same')
        if not confirmed:
            print('NOT confirmed, skipped:', prop, k, res)
            continue
        dst = os.path.join(HERE, 'seeded', '%s-%s%s' % (prop, TAG, k))
        os.makedirs(dst, exist_ok=True)
        shutil.copy(os.path.join(src, 'patch.diff'), os.path.join(dst, 'patch.diff'))
        demo = open(os.path.join(src, 'demo.py')).read().replace('/tmp/%s-%s' % (PFX, prop), '/repo')
        open(os.path.join(dst, 'demo.py'), 'w').write(demo)
        notes = open(os.path.join(src, 'notes.txt')).read() if os.path.exists(os.path.join(src, 'notes.txt')) else ''
        open(os.path.join(dst, 'notes.txt'), 'w').write(notes)
        meta = {
            'property': prop,
            'origin': 'independent sub-agent given only the property text and a scratch worktree (%s)' % os.environ.get('ROUND_NAME', 'round 1'),
            'needs_to_manifest': notes.strip(),
            'confirmed_by_me': {
                'patch_applies_on_clean_HEAD': True,
                'demo_on_clean_tree_rc': res['demo_clean_rc'],
                'demo_with_patch_rc': res['demo_patched_rc'],
                'existing_suite_with_patch': res.get('suite'),
                'commands': ['git -C <worktree> apply patch.diff', '/venv/bin/python demo.py',
                             '/venv/bin/python -m pytest -q -p no:cacheprovider --timeout=900 --continue-on-collection-errors',
                             'VERIF_REPO=<worktree> ./check %s --tier quick --no-shrink' % prop],
            },
            'first_evaluation': res.get('checks'),
        }
        json.dump(meta, open(os.path.join(dst, 'meta.json'), 'w'), indent=1)
        print('imported', dst)
