#!/venv/bin/python
"""Regenerates /verif/MANIFEST.json from the tables below (kept in one place so it stays valid)."""
import json
import os

HERE = os.path.dirname(os.path.dirname(os.path.abspath(__file__)))

CLAIMED = {
    'C13': dict(engine='fcsim', design='4/C13',
                technique='deterministic simulation: seeded call-history search over CatalogForecast storage/filter '
                          'configurations with twin-object and pass-consistency oracles',
                text='Seeded exploration of operation histories {iteration, event counts, expected rates, marginals, '
                     'n_cat, every catalog-based test} over storage modes (in-memory list, streamed file cached / '
                     're-read through a counting loader), filter modes and file encodings; after every operation the '
                     'forecast is compared with a history-free twin (same pass content and order, counts of a single '
                     'pass, identical rates on every request, identical evaluation results) under deterministic step '
                     'budgets. Sampling, not proof: the state machine is small (cursor, cache swap, filter switch, '
                     'accumulator, cached rates), so thousands of short diverse histories reach all of its abstract '
                     'states, which the evidence counts.',
                note='Trusts: the twin built from the same literal inputs as the reference for "a single pass"; '
                     'events strictly inside cells/bins so binning is unambiguous; RNG/clock/open seams are '
                     'monkey patches proven transparent by `./check selftest transparency`.'),
    'C10': dict(engine='fcsim', design='4/C10',
                technique='deterministic simulation: catalog-based tests driven through forecast histories and storage '
                          'modes with the global RNG recorded; reference model of the documented statistics',
                text='The same simulated histories as C13, with every evaluation result compared against a reference '
                     'implementation of the documented definitions (theory.rst, Serafini docstrings) computed from '
                     'the literal catalogs by the model\'s own binning and from the recorded numpy.random.choice '
                     'outputs for the two resampling tests; status / no-result signalling and the undersampled rule '
                     'are checked; quantiles are checked against the C09 convention on the library\'s own numbers.',
                note='Trusts the reference model (about 150 lines, dsim/models.py); N_U = 0 and single-edge magnitude '
                     'grids are documented preconditions and are skipped and counted.'),
    'C05': dict(engine='rngsim', design='4/C05',
                technique='deterministic simulation: recorded and perturbed global-RNG stream; every simulated catalog rebuilt '
                          'from the recorded draws by an exact-rational inverse CDF and scored by a reference Poisson likelihood',
                text='Seeded histories of the four Poisson tests on generated forecasts (rates over 1e-12..1e3 with zero-rate '
                     'bins, 0..hundreds of events, several per bin) with the process-global NumPy RNG owned by the simulator: '
                     'the Poisson count and every uniform are recorded, the simulated catalog of each test-distribution entry is '
                     'reconstructed and its joint log-likelihood recomputed (full rates for L/CL, marginals scaled to N_obs for '
                     'S/M), as is the observed statistic incl. the minus-infinity rule. NOISE ops and re-seeding between calls '
                     'vary the stream. Clause 2 of the property is undecidable without the RNG seam.',
                note='Trusts the 30-line reference likelihood and the exact-rational placement (dsim/models.py); draws within the '
                     'float slop of a cumulative boundary are accepted in either adjacent positive-rate bin.'),
    'C06': dict(engine='rngsim', design='4/C06',
                technique='deterministic simulation with fault injection on the RNG seam: override scripts place legal extreme '
                          'uniforms / Poisson counts, NOISE ops perturb the shared generator, draw budgets bound rejection loops',
                text='The RNG seam injects 0.0, the largest double below 1, every cumulative boundary and its neighbours, '
                     'zero-rate gaps and values at or above a last cumulative weight that rounds below 1, at random draw '
                     'positions or through random_numbers=; oracles: conservation of counts (number of uniforms consumed per '
                     'simulated catalog, Poisson mean = forecast total), exact inverse-CDF placement and never a zero-rate bin, '
                     'no exception for any legal draw, quantile = fraction of simulations not exceeding the observed value, '
                     'bit-identical results for equal (forecast, catalog, seed) whatever other components did to the global '
                     'generator in between - seed 0 included, for the two seeded catalog tests too - and termination of the '
                     'binary/Brier rejection loops within a probability-aware draw budget.',
                note='Liveness budget per simulation 1000 + 50*n_active/q uniforms (hard cap 400k per call; above the cap not '
                     'judged). Scenarios with more active bins than positive-rate bins are vacuous and not generated.'),
    'C16': dict(engine='rngsim', design='4/C16',
                technique='deterministic simulation: rejection-loop uniform stream recorded through the RNG seam and segmented '
                          'by a reference model; binary likelihood / Brier recomputed for observed and every simulated catalog',
                text='Binary S/CL and Brier tests on generated forecasts (rates 1e-3..3, zeros) with the uniform stream of the '
                     'rejection loops recorded; the activity pattern of every simulated catalog is rebuilt (duplicates '
                     'rejected) and scored by the definitions; observed statistics are recomputed too and a twin catalog with '
                     'changed multiplicities must give the identical statistic.',
                note='ln(1-exp(-rate)) evaluated literally in floats loses eps/rate relative accuracy; the model uses expm1 and '
                     'tolerates that much. Known finding K01 (active zero-rate bin) is listed in known_findings.json.'),
    'C04': dict(engine='catsim', design='4/C04',
                technique='deterministic simulation: seeded call histories by several actors on shared mutable catalog handles '
                          '(orders, groupings, repetition, in_place modes, TZ switches) against a list-of-tuples reference model',
                text='filter / filter_spatial mutate their receiver by default, so the property is a statement about call '
                     'histories: 1-3 actors issue FILTER (string, list, tuple; in_place on/off), FILTER_DEFAULT, '
                     'FILTER_SPATIAL, REGROUP (same statements in five orders / groupings on twins), REPEAT, DATETIME_EQUIV, '
                     'LOAD_APPLY and TZ_SWITCH ops; after every op every live handle is compared bit-exactly with the model, '
                     'in_place=False must leave the receiver byte-identical, thresholds equal event values and their ulp '
                     'neighbours, instants cover 1900..2200 at every millisecond phase.',
                note='Trusts the literal reference semantics float(attribute) op float(value); spatial membership is unambiguous '
                     'by construction (points strictly inside cells or clearly outside).'),
    'C11': dict(engine='gridsim', design='4/C11',
                technique='deterministic simulation: generated forecast files delivered in drawn row/column orders, then seeded '
                          'scale / scale_to_test_date / lookup / evaluation histories by two actors against a last-factor model',
                text='The simulator writes the forecast file (lattice anchored anywhere incl. near 0, five spacings, holes, '
                     'flag-0 cells, 1..5 magnitude bins, three cell orders, lat/lon swap, quadtree ascii layout), loads it with '
                     'the real loader and drives a history of SCALE, SCALE_TO_DATE (before/at/inside/after the window), READ, '
                     'LOOKUP (interiors, lower corners and edges, lower magnitude edges, open top bin), LOOKUP_OUTSIDE, '
                     'TARGET_RATES and EVAL; after every op data == file rates x last factor bit-exactly, marginals sum to the '
                     'total, lookups return the row\'s rate, and an evaluation equals that on a freshly loaded and once-scaled twin.',
                note='Uses the library\'s decimal_year for the in-window factor (C15 is not re-judged); out-of-window '
                     'scale_to_test_date may keep the factor or reset it to 1 (docstring and code disagree).'),
    'C14': dict(engine='persistsim', design='4/C14',
                technique='deterministic simulation: write-close-read histories through an open() proxy on a scratch store under '
                          'a simulated wall clock (jumps, zero-microsecond instants) and time-zone switches; logical-catalog model',
                text='Catalogs are constructed at simulated instants (the construction instant is serialised by the JSON form and '
                     're-parsed by format sniffing), saved as ASCII / JSON / dict / DataFrame, reloaded, re-saved for a second and '
                     'third generation, and overwritten, while the clock jumps forward, backward, onto zero-microsecond instants '
                     'and anywhere in 1900..2200 and TZ changes; after each load the events (id bytes, int64 ms, four doubles '
                     'bit-exact, order), the integer catalog id and - for dict/JSON - name and region are compared with the model; '
                     'the open() proxy asserts that no file is read while still open for writing.',
                note='Preconditions: a catalog bound to a region holds only in-region events (to_dataframe asks the region); an '
                     'empty ASCII file / DataFrame has no row to carry the id.'),
    'C18': dict(engine='persistsim', design='4/C18',
                technique='deterministic simulation: results produced by engine-A/engine-B runs under their perturbations are '
                          'written and re-read through storage at simulated instants; field-wise comparison after reload',
                text='Every result object produced by a seeded fcsim or rngsim run (all catalog-based and gridded tests, incl. '
                     'infinite, NaN and None statistics, not-valid / undersampled statuses), plus N, NBD-N, paired-T/W and '
                     'calibration results, is saved with csep.write_json and loaded with csep.load_evaluation_result; class, '
                     'name, status, statistic, quantile, numeric distribution, names and min_mw must be equal. A generated '
                     'lattice is rebuilt from its dict and probed at interiors, corners, edges and outside points.',
                note='Equality is NaN-aware with tuple == list; producers that raise for reasons outside C18 (paired T/W '
                     'preconditions, scipy API) yield no result and are counted.'),
    'C20': dict(engine='permsim', design='4/C20',
                technique='deterministic simulation with reordering faults: permuted-delivery twin worlds (event rows, synthetic '
                          'catalog order in memory and in the forecast file, region cells with rates) executed from the same RNG state',
                text='Re-ordering is the one transport fault inside a listed property. For every base world from engine A or B a '
                     'twin with one delivery channel permuted by the run PRNG is executed under the same recorded RNG state: '
                     'observed statistics and analytic quantiles must agree to rounding, simulation-free distributions as sorted '
                     'multisets, and with a fixed seed a permutation of the observed events must leave simulation-based results '
                     'and the consumed draw stream bit-for-bit identical.',
                note='Rounding = relative 1e-9 (1e-7 through scipy cdfs); w_test cannot run with the installed scipy and is '
                     'not exercised; worlds where both orders raise are outside the property and counted.'),
}

NOT_APPLICABLE = {
    'C01': 'pure function of (lattice, point): no state, schedule, clock, RNG, storage or delivery order for a simulator to control; input generation alone would be property-based testing',
    'C02': 'pure stateless arithmetic on (edges, value); no seam involved',
    'C03': 'pure function of the catalog array and the region; quantifies over inputs only',
    'C07': 'closed-form tail probabilities of (mean, variance, n_obs) / C09 applied to integers; no seam involved',
    'C08': 'pure function of two rate arrays and the observed events; no state, RNG, clock or I/O',
    'C09': 'pure function of a multiset and a value',
    'C12': 'decoder output is a function of the file bytes only; its generator state is local to one invocation, so consumption pace or interleaving cannot change what it yields',
    'C15': 'pure functions of a timestamp / datetime / string (TZ is varied inside C04/C14 runs because they depend on these functions)',
    'C17': 'construction and lookup are pure functions of quadkeys / catalog / point',
    'C19': 'each reader is a pure function of the file bytes; no clock, time zone or shared state is consulted',
}

PENDING = {}


def main():
    checks = []
    for pid in sorted(CLAIMED):
        c = CLAIMED[pid]
        checks.append({
            'property_id': pid,
            'quick_cmd': 'timeout 900 ./check %s --tier quick' % pid,
            'thorough_cmd': 'timeout 3400 ./check %s --tier thorough' % pid,
            'evidence_file': '/verif/evidence/%s.json' % pid,
            'replay_cmd_template': './check --replay {path}',
            'engine': c['engine'],
            'level_claimed': {'category': 'exploration', 'text': c['text'], 'design_ref': c['design']},
            'level_note': c['note'],
            'technique': c['technique'],
        })
    na = [{'property_id': p, 'reason': NOT_APPLICABLE[p]} for p in sorted(NOT_APPLICABLE)]
    na += [{'property_id': p, 'reason': PENDING[p]} for p in sorted(PENDING)]
    engines = {}
    for pid, c in CLAIMED.items():
        engines.setdefault(c['engine'], []).append(pid)
    man = {
        'version': 1,
        'setup_cmd': 'true',
        'hooks': {
            'guard': 'PYCSEP_VERIF',
            'enable': 'none needed: every seam is a monkey patch installed by /verif/dsim/seams.py at run time '
                      '(numpy.random entry points, csep clock functions, open() in csep modules, TZ); /repo carries no hook',
            'baseline_off_cmd': 'cd /repo && /venv/bin/python -m pytest -ra -q -p no:cacheprovider --timeout=900 '
                                '--continue-on-collection-errors',
            'source_commits': [],
            'add_only': True,
        },
        'engines': [{'name': e, 'path': '/verif/dsim/engines/%s.py' % e, 'serves_properties': sorted(ps),
                     'kind_free_text': 'deterministic simulator (seeded scheduler over op histories, RNG/clock/storage/'
                                       'delivery seams, reference-model oracles, ddmin shrinker, explicit replay files)'}
                    for e, ps in sorted(engines.items())],
        'checks': checks,
        'not_applicable': na,
        'notes': 'Technique family: deterministic simulation with fault injection. One integer (VERIF_SEED) decides '
                 'every run. Exit 0 = held, 1 = VIOLATION lines, 2 = harness error. Known findings: '
                 '/verif/known_findings.json. See DESIGN.md.',
    }
    with open(os.path.join(HERE, 'MANIFEST.json'), 'w') as f:
        json.dump(man, f, indent=1)
    print('wrote MANIFEST.json with %d checks, %d not_applicable' % (len(checks), len(na)))


if __name__ == '__main__':
    main()
