#!/venv/bin/python
"""Regenerates /verif/MANIFEST.json from the tables below (kept in one place so it stays valid)."""
import json
import os

HERE = os.path.dirname(os.path.dirname(os.path.abspath(__file__)))

CLAIMED = {
    'C13': dict(engine='fcsim', design='4/C13',
                technique='deterministic simulation: seeded call-history search over CatalogForecast storage/filter '
                          'configurations with twin-object and pass-consistency oracles',
                text='Seeded exploration of operation histories {iteration, event counts, expected rates, marginals, '
                     'n_cat, every catalog-based test} over storage modes (in-memory list, streamed file cached / '
                     're-read through a counting loader), filter modes and file encodings; after every operation the '
                     'forecast is compared with a history-free twin (same pass content and order, counts of a single '
                     'pass, identical rates on every request, identical evaluation results) under deterministic step '
                     'budgets. Sampling, not proof: the state machine is small (cursor, cache swap, filter switch, '
                     'accumulator, cached rates), so thousands of short diverse histories reach all of its abstract '
                     'states, which the evidence counts.',
                note='Trusts: the twin built from the same literal inputs as the reference for "a single pass"; '
                     'events strictly inside cells/bins so binning is unambiguous; RNG/clock/open seams are '
                     'monkey patches proven transparent by `./check selftest transparency`.'),
    'C10': dict(engine='fcsim', design='4/C10',
                technique='deterministic simulation: catalog-based tests driven through forecast histories and storage '
                          'modes with the global RNG recorded; reference model of the documented statistics',
                text='The same simulated histories as C13, with every evaluation result compared against a reference '
                     'implementation of the documented definitions (theory.rst, Serafini docstrings) computed from '
                     'the literal catalogs by the model\'s own binning and from the recorded numpy.random.choice '
                     'outputs for the two resampling tests; status / no-result signalling and the undersampled rule '
                     'are checked; quantiles are checked against the C09 convention on the library\'s own numbers.',
                note='Trusts the reference model (about 150 lines, dsim/models.py); N_U = 0 and single-edge magnitude '
                     'grids are documented preconditions and are skipped and counted.'),
    'C05': dict(engine='rngsim', design='4/C05',
                technique='deterministic simulation: recorded and perturbed global-RNG stream; every simulated catalog rebuilt '
                          'from the recorded draws by an exact-rational inverse CDF and scored by a reference Poisson likelihood',
                text='Seeded histories of the four Poisson tests on generated forecasts (rates over 1e-12..1e3 with zero-rate '
                     'bins, 0..hundreds of events, several per bin) with the process-global NumPy RNG owned by the simulator: '
                     'the Poisson count and every uniform are recorded, the simulated catalog of each test-distribution entry is '
                     'reconstructed and its joint log-likelihood recomputed (full rates for L/CL, marginals scaled to N_obs for '
                     'S/M), as is the observed statistic incl. the minus-infinity rule. NOISE ops and re-seeding between calls '
                     'vary the stream. Clause 2 of the property is undecidable without the RNG seam.',
                note='Trusts the 30-line reference likelihood and the exact-rational placement (dsim/models.py); draws within the '
                     'float slop of a cumulative boundary are accepted in either adjacent positive-rate bin.'),
    'C06': dict(engine='rngsim', design='4/C06',
                technique='deterministic simulation with fault injection on the RNG seam: override scripts place legal extreme '
                          'uniforms / Poisson counts, NOISE ops perturb the shared generator, draw budgets bound rejection loops',
                text='The RNG seam injects 0.0, the largest double below 1, every cumulative boundary and its neighbours, '
                     'zero-rate gaps and values at or above a last cumulative weight that rounds below 1, at random draw '
                     'positions or through random_numbers=; oracles: conservation of counts (number of uniforms consumed per '
                     'simulated catalog, Poisson mean = forecast total), exact inverse-CDF placement and never a zero-rate bin, '
                     'no exception for any legal draw, quantile = fraction of simulations not exceeding the observed value, '
                     'bit-identical results for equal (forecast, catalog, seed) whatever other components did to the global '
                     'generator in between - seed 0 included, for the two seeded catalog tests too - and termination of the '
                     'binary/Brier rejection loops within a probability-aware draw budget.',
                note='Liveness budget per simulation 1000 + 50*n_active/q uniforms (hard cap 400k per call; above the cap not '
                     'judged). Scenarios with more active bins than positive-rate bins are vacuous and not generated.'),
    'C16': dict(engine='rngsim', design='4/C16',
                technique='deterministic simulation: rejection-loop uniform stream recorded through the RNG seam and segmented '
                          'by a reference model; binary likelihood / Brier recomputed for observed and every simulated catalog',
                text='Binary S/CL and Brier tests on generated forecasts (rates 1e-3..3, zeros) with the uniform stream of the '
                     'rejection loops recorded; the activity pattern of every simulated catalog is rebuilt (duplicates '
                     'rejected) and scored by the definitions; observed statistics are recomputed too and a twin catalog with '
                     'changed multiplicities must give the identical statistic.',
                note='ln(1-exp(-rate)) evaluated literally in floats loses eps/rate relative accuracy; the model uses expm1 and '
                     'tolerates that much. Known finding K01 (active zero-rate bin) is listed in known_findings.json.'),
}

NOT_APPLICABLE = {
    'C01': 'pure function of (lattice, point): no state, schedule, clock, RNG, storage or delivery order for a simulator to control; input generation alone would be property-based testing',
    'C02': 'pure stateless arithmetic on (edges, value); no seam involved',
    'C03': 'pure function of the catalog array and the region; quantifies over inputs only',
    'C07': 'closed-form tail probabilities of (mean, variance, n_obs) / C09 applied to integers; no seam involved',
    'C08': 'pure function of two rate arrays and the observed events; no state, RNG, clock or I/O',
    'C09': 'pure function of a multiset and a value',
    'C12': 'decoder output is a function of the file bytes only; its generator state is local to one invocation, so consumption pace or interleaving cannot change what it yields',
    'C15': 'pure functions of a timestamp / datetime / string (TZ is varied inside C04/C14 runs because they depend on these functions)',
    'C17': 'construction and lookup are pure functions of quadkeys / catalog / point',
    'C19': 'each reader is a pure function of the file bytes; no clock, time zone or shared state is consulted',
}

PENDING = {p: 'not claimed yet: the simulator engine for this property is still under construction (DESIGN.md section 10); it is a simulation target and will be claimed when its check exists'
           for p in ('C04', 'C11', 'C14', 'C18', 'C20')}


def main():
    checks = []
    for pid in sorted(CLAIMED):
        c = CLAIMED[pid]
        checks.append({
            'property_id': pid,
            'quick_cmd': 'timeout 900 ./check %s --tier quick' % pid,
            'thorough_cmd': 'timeout 3400 ./check %s --tier thorough' % pid,
            'evidence_file': '/verif/evidence/%s.json' % pid,
            'replay_cmd_template': './check --replay {path}',
            'engine': c['engine'],
            'level_claimed': {'category': 'exploration', 'text': c['text'], 'design_ref': c['design']},
            'level_note': c['note'],
            'technique': c['technique'],
        })
    na = [{'property_id': p, 'reason': NOT_APPLICABLE[p]} for p in sorted(NOT_APPLICABLE)]
    na += [{'property_id': p, 'reason': PENDING[p]} for p in sorted(PENDING)]
    engines = {}
    for pid, c in CLAIMED.items():
        engines.setdefault(c['engine'], []).append(pid)
    man = {
        'version': 1,
        'setup_cmd': 'true',
        'hooks': {
            'guard': 'PYCSEP_VERIF',
            'enable': 'none needed: every seam is a monkey patch installed by /verif/dsim/seams.py at run time '
                      '(numpy.random entry points, csep clock functions, open() in csep modules, TZ); /repo carries no hook',
            'baseline_off_cmd': 'cd /repo && /venv/bin/python -m pytest -ra -q -p no:cacheprovider --timeout=900 '
                                '--continue-on-collection-errors',
            'source_commits': [],
            'add_only': True,
        },
        'engines': [{'name': e, 'path': '/verif/dsim/engines/%s.py' % e, 'serves_properties': sorted(ps),
                     'kind_free_text': 'deterministic simulator (seeded scheduler over op histories, RNG/clock/storage/'
                                       'delivery seams, reference-model oracles, ddmin shrinker, explicit replay files)'}
                    for e, ps in sorted(engines.items())],
        'checks': checks,
        'not_applicable': na,
        'notes': 'Technique family: deterministic simulation with fault injection. One integer (VERIF_SEED) decides '
                 'every run. Exit 0 = held, 1 = VIOLATION lines, 2 = harness error. Known findings: '
                 '/verif/known_findings.json. See DESIGN.md.',
    }
    with open(os.path.join(HERE, 'MANIFEST.json'), 'w') as f:
        json.dump(man, f, indent=1)
    print('wrote MANIFEST.json with %d checks, %d not_applicable' % (len(checks), len(na)))


if __name__ == '__main__':
    main()
