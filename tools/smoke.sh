#!/bin/bash
# smoke: every check on a few hundred runs (two seeds) + pyflakes-like compile; run before every commit
cd "$(dirname "$0")/.." || exit 2
bad=0
/venv/bin/python -m compileall -q dsim >/dev/null || bad=1
for s in 0 1; do
  for p in C04 C05 C06 C10 C11 C13 C14 C16 C18 C20; do
    out=$(VERIF_SEED=$s VERIF_SCRATCH_EVIDENCE=1 VERIF_NO_SWEEP=1 timeout 600 ./check $p --runs ${RUNS:-400} 2>&1); rc=$?
    if [ $rc -ne 0 ]; then bad=1; echo "SMOKE FAIL seed=$s $p rc=$rc"; echo "$out" | grep -v KNOWN-FINDING | tail -6; fi
  done
done
find dsim -name __pycache__ -prune -exec rm -rf {} + 2>/dev/null
[ $bad -eq 0 ] && echo "smoke ok"
exit $bad
