#!/bin/bash
# soak: run every check's quick tier over a range of seeds; print only alarms and harness errors
# usage: tools/soak.sh <first_seed> <last_seed> [props...]
cd "$(dirname "$0")/.." || exit 2
a=$1; b=$2; shift 2
props=${@:-C04 C05 C06 C10 C11 C13 C14 C16 C18 C20}
bad=0
for s in $(seq $a $b); do
  for p in $props; do
    out=$(VERIF_SEED=$s VERIF_SCRATCH_EVIDENCE=1 timeout 1800 ./check $p --tier ${TIER:-quick} 2>&1); rc=$?
    if [ $rc -ne 0 ]; then bad=$((bad+1)); echo "seed=$s prop=$p rc=$rc"; echo "$out" | grep -v KNOWN-FINDING | tail -5; fi
  done
done
echo "soak seeds $a..$b: $bad failing (seed,property) pairs"
exit $((bad>0))
