"""Reference models (oracles). Small, direct transcriptions of the documented definitions.

They never import csep. Inputs are literal python data (lists of floats / ints).
"""
import math
from fractions import Fraction

import numpy
from scipy.special import gammaln

NEG_INF = float('-inf')


# --------------------------------------------------------------------------- numeric compare

def close(a, b, rel=1e-9, abs_=1e-9):
    """NaN/inf aware closeness of two scalars (None == None)."""
    if a is None or b is None:
        return a is None and b is None
    a = float(a)
    b = float(b)
    if math.isnan(a) or math.isnan(b):
        return math.isnan(a) and math.isnan(b)
    if math.isinf(a) or math.isinf(b):
        return a == b
    return abs(a - b) <= abs_ + rel * max(abs(a), abs(b))


def close_seq(a, b, rel=1e-9, abs_=1e-9):
    a = list(a)
    b = list(b)
    if len(a) != len(b):
        return False
    return all(close(x, y, rel, abs_) for x, y in zip(a, b))


# --------------------------------------------------------------------------- exact inverse CDF

class InverseCDF:
    """Exact-rational cumulative intervals [F_(k-1), F_k) of a flat rate array.

    place(u) returns the set of admissible bins for a uniform u: the bin whose exact interval
    contains u, plus - when u is within `slop` of an interval boundary - the positive-rate
    bins on the other side of it (the library works with float cumulative sums; a draw within
    the float slop of a boundary may legitimately fall on either side, and across bins that are
    themselves narrower than the slop). Zero-rate bins have empty
    intervals and are never admissible.
    """

    def __init__(self, rates):
        self.rates = [float(r) for r in rates]
        fr = [Fraction(r) if r > 0 else Fraction(0) for r in self.rates]
        self.total = sum(fr)
        self.pos = [k for k, r in enumerate(self.rates) if r > 0]
        acc = Fraction(0)
        self.upper = []          # exact F_k / total for positive bins (parallel to self.pos)
        for k in self.pos:
            acc += fr[k]
            self.upper.append(acc / self.total)
        self.upper_f = [float(x) for x in self.upper]
        n = max(1, len(self.rates))
        self.slop = 64.0 * n * 2.0 ** -53

    def place(self, u):
        """-> (sorted list of admissible bins, ambiguous flag)"""
        u = float(u)
        import bisect
        # first positive bin whose upper bound is > u  (float pre-search, exact refine)
        i = bisect.bisect_right(self.upper_f, u)
        i = min(max(i, 0), len(self.pos) - 1)
        fu = Fraction(u)
        while i > 0 and self.upper[i - 1] > fu:
            i -= 1
        while i < len(self.pos) - 1 and self.upper[i] <= fu:
            i += 1
        cands = {self.pos[i]}
        amb = False
        lo = self.upper_f[i - 1] if i > 0 else 0.0
        hi = self.upper_f[i]
        # every positive bin whose interval comes within the float slop of u is admissible: usually that is one
        # neighbour, but bins narrower than the slop (rates many decades below the total) collapse in a float cumulative
        # sum, and a draw at such a boundary may legitimately land beyond them
        j = i
        while j > 0 and u - self.upper_f[j - 1] <= self.slop:
            cands.add(self.pos[j - 1])
            amb = True
            j -= 1
        j = i
        while j < len(self.pos) - 1 and self.upper_f[j] - u <= self.slop:
            cands.add(self.pos[j + 1])
            amb = True
            j += 1
        return sorted(cands), amb

    def quantile_of_kth(self, n_active):
        """normalised rate of the n_active-th most probable positive bin (coupon-collector bound)"""
        probs = sorted((self.rates[k] for k in self.pos), reverse=True)
        tot = float(self.total)
        if n_active <= 0 or n_active > len(probs):
            return None
        return probs[n_active - 1] / tot


# --------------------------------------------------------------------------- gridded statistics

def poisson_joint_ll(counts, lam, n_fore=None):
    """sum_b [c ln lam - lam - ln c!]; -inf iff some c>0 has lam == 0. n_fore overrides sum(lam)."""
    s = 0.0
    for c, l in zip(counts, lam):
        if c > 0:
            if l <= 0:
                return NEG_INF
            s += c * math.log(l) - float(gammaln(c + 1))
    s -= (float(sum(lam)) if n_fore is None else n_fore)
    return s


def poisson_test_stat(kind, rates2d, counts_flat_or_2d, n_obs_for_scale=None):
    """Statistic of the L / CL / S / M tests for a count array of matching layout.

    kind 'L','CL': rates flat (cells*mags), counts flat. 'S': spatial marginal; 'M': magnitude
    marginal; both scaled to n_obs (n_obs_for_scale = number of events of the *observed* catalog).
    """
    r = numpy.array(rates2d, dtype=float)
    if kind in ('L', 'CL'):
        lam = r.ravel().tolist()
        return poisson_joint_ll(counts_flat_or_2d, lam)
    marg = r.sum(axis=1) if kind == 'S' else r.sum(axis=0)
    n_fore = float(r.sum())
    n_obs = n_obs_for_scale
    scale = n_obs / n_fore
    lam = (marg * scale).tolist()
    return poisson_joint_ll(counts_flat_or_2d, lam, n_fore=float(int(n_obs)))


def binary_joint_ll(active, lam):
    """sum_active ln(1-exp(-lam)) + sum_inactive (-lam)"""
    s = 0.0
    for a, l in zip(active, lam):
        if a:
            if l <= 0:
                return NEG_INF
            s += math.log(-math.expm1(-l))
        else:
            s += -l
    return s


def brier_score(active, lam):
    n = len(lam)
    s = 0.0
    for a, l in zip(active, lam):
        p = -math.expm1(-l) if l > 0 else 0.0
        s += (p - (1.0 if a else 0.0)) ** 2
    return -2.0 * s / n


# --------------------------------------------------------------------------- catalog-based tests

def ecdf_ge_le(sample, v):
    """(#{x >= v}/n, #{x <= v}/n)  - the C09 convention"""
    n = len(sample)
    ge = sum(1 for x in sample if x >= v)
    le = sum(1 for x in sample if x <= v)
    return ge / n, le / n


class CatalogForecastModel:
    """Reference for the catalog-based tests. counts[j] is an (n_cells x n_mags) int array."""

    def __init__(self, counts):
        self.counts = [numpy.array(c, dtype=float) for c in counts]
        self.J = len(self.counts)
        self.rates = sum(self.counts) / self.J
        self.nbar = float(self.rates.sum())
        self.lam_s = self.rates.sum(axis=1)
        self.lam_m = self.rates.sum(axis=0)
        self.union_m = sum(c.sum(axis=0) for c in self.counts)       # Lambda_U^(m)
        self.n_union = float(self.union_m.sum())

    # N-test
    def number(self, obs):
        obs = numpy.array(obs, dtype=float)
        dist = [float(c.sum()) for c in self.counts]
        n_obs = float(obs.sum())
        return {'dist': dist, 'obs': n_obs, 'quantile': ecdf_ge_le(dist, n_obs), 'status': 'normal'}

    def _norm_spatial(self, sc):
        """mean over a catalog's events of ln(lam*_s); None if undefined"""
        n = float(sc.sum())
        if n == 0:
            return None
        tot = float(self.lam_s.sum())
        s = 0.0
        for c, l in zip(sc, self.lam_s):
            if c > 0:
                if l <= 0:
                    return NEG_INF
                s += c * math.log(l / tot)
        return s / n

    def spatial(self, obs):
        obs = numpy.array(obs, dtype=float)
        so = obs.sum(axis=1)
        n_obs = float(so.sum())
        dist = []
        for c in self.counts:
            v = self._norm_spatial(c.sum(axis=1))
            if v is not None and n_obs > 0:
                dist.append(v)
        status = 'normal'
        if n_obs == 0:
            return {'dist': dist, 'obs': float('nan'), 'quantile': (-1, -1), 'status': 'not-valid'}
        v = self._norm_spatial(so)
        if v == NEG_INF:
            keep = self.lam_s > 0
            so2 = so[keep]
            n2 = float(so2.sum())
            status = 'undersampled'
            if n2 == 0:
                return {'dist': dist, 'obs': float('nan'), 'quantile': (-1, -1), 'status': 'not-valid'}
            tot = float(self.lam_s.sum())
            v = sum(c * math.log(l / tot) for c, l in zip(so2, self.lam_s[keep]) if c > 0) / n2
        return {'dist': dist, 'obs': v, 'status': status}

    def _pl(self, sc):
        n = float(sc.sum())
        if n == 0:
            return -self.nbar
        s = 0.0
        for c, l in zip(sc, self.lam_s):
            if c > 0:
                if l <= 0:
                    return NEG_INF
                s += c * math.log(l)
        return s - self.nbar

    def pseudolikelihood(self, obs):
        obs = numpy.array(obs, dtype=float)
        so = obs.sum(axis=1)
        n_obs = float(so.sum())
        if n_obs == 0:
            return None
        dist = [self._pl(c.sum(axis=1)) for c in self.counts]
        status = 'normal'
        v = self._pl(so)
        if v == NEG_INF:
            keep = self.lam_s > 0
            so2 = so[keep]
            if float(so2.sum()) == 0:
                return None
            status = 'undersampled'
            v = sum(c * math.log(l) for c, l in zip(so2, self.lam_s[keep]) if c > 0) - self.nbar
        return {'dist': dist, 'obs': v, 'status': status}

    def _d_stat(self, hist, n_obs):
        ref = self.union_m * (n_obs / self.n_union)
        return float(numpy.sum((numpy.log10(ref + 1) - numpy.log10(numpy.array(hist, dtype=float) + 1)) ** 2))

    def magnitude(self, obs):
        obs = numpy.array(obs, dtype=float)
        mo = obs.sum(axis=0)
        n_obs = float(mo.sum())
        if n_obs == 0:
            return {'dist': [], 'obs': None, 'quantile': (None, None), 'status': 'not-valid'}
        dist = []
        for c in self.counts:
            m = c.sum(axis=0)
            nj = float(m.sum())
            if nj == 0:
                continue
            dist.append(self._d_stat(m * (n_obs / nj), n_obs))
        return {'dist': dist, 'obs': self._d_stat(mo, n_obs), 'status': 'normal'}

    def resampled_magnitude(self, obs, resampled_hists):
        """resampled_hists: per synthetic catalog the magnitude histogram of the recorded resample"""
        obs = numpy.array(obs, dtype=float)
        mo = obs.sum(axis=0)
        n_obs = float(mo.sum())
        if n_obs == 0:
            return {'dist': [], 'obs': None, 'quantile': (None, None), 'status': 'not-valid'}
        dist = []
        for h in resampled_hists:
            h = numpy.array(h, dtype=float)
            n = float(h.sum())
            if n == 0:
                continue
            dist.append(self._d_stat(h * (n_obs / n), n_obs))
        return {'dist': dist, 'obs': self._d_stat(mo, n_obs), 'status': 'normal'}

    @staticmethod
    def _log_multinomial(x):
        x = numpy.array(x, dtype=float)
        size = float(x.sum())
        p = x / size
        return float(gammaln(size + 1) + numpy.sum(x * numpy.log(p) - gammaln(x + 1)))

    def mll_score(self, hist):
        h = numpy.array(hist, dtype=float)
        ratio = self.n_union / float(h.sum())
        u = self.union_m + ratio
        c = h + 1
        return 2 * (self._log_multinomial(u + c) - self._log_multinomial(u) - self._log_multinomial(c))

    def mll(self, obs, resampled_hists):
        obs = numpy.array(obs, dtype=float)
        mo = obs.sum(axis=0)
        n_obs = float(mo.sum())
        if n_obs == 0:
            return {'dist': [], 'obs': None, 'quantile': (None, None), 'status': 'not-valid'}
        dist = [self.mll_score(h) for h in resampled_hists]
        return {'dist': dist, 'obs': self.mll_score(mo), 'status': 'normal'}
