"""Seams owned by the simulator: global NumPy RNG, wall clock, storage, time zone, stdout.

All seams are monkey patches installed for the duration of one run and removed afterwards;
/repo carries no hook. With no override configured every seam is transparent (bit-identical
behaviour), which `selftest transparency` checks.
"""
import builtins
import contextlib
import datetime as _dt
import io
import os
import shutil
import sys
import tempfile
import time as _time

import numpy

from .kernel import SimBudgetExceeded, HarnessError

_RNG_NAMES = ('seed', 'rand', 'uniform', 'poisson', 'choice', 'random', 'random_sample', 'randint',
              'permutation', 'shuffle', 'normal', 'multinomial', 'exponential', 'binomial', 'randn',
              'sample', 'ranf')


class SimRandom:
    """Replacement for the process-global numpy.random entry points.

    Backed by a private RandomState, so after seed(s) the stream equals NumPy's global stream
    after numpy.random.seed(s). Records every call; an override script substitutes individual
    uniform / Poisson draws by other *legal* values; a draw budget bounds rejection loops.
    """

    def __init__(self, initial_seed=0, budget=400000):
        self.rs = numpy.random.RandomState(initial_seed)
        self.calls = []          # (kind, args, value) per call since last mark
        self.n_uniform = 0       # ordinal of the next uniform draw since last mark
        self.n_poisson = 0
        self.n_calls_total = 0
        self.budget = budget
        self.default_budget = budget
        self.spent = 0
        self.u_over = {}         # uniform ordinal -> value
        self.p_over = {}         # poisson ordinal -> value
        self.fired = {}          # override kind -> count
        self.entropy = 0x5eed    # what seed(None) uses (deterministic stand-in for OS entropy)
        self._saved = None

    # ---- bookkeeping -------------------------------------------------------
    def mark(self, u_over=None, p_over=None, budget=None):
        """Start a new recording window (one op)."""
        self.calls = []
        self.n_uniform = 0
        self.n_poisson = 0
        self.u_over = dict(u_over or {})
        self.p_over = dict(p_over or {})
        self.spent = 0
        # a budget never outlives the op it was computed for
        self.budget = budget if budget is not None else self.default_budget

    def _spend(self, n):
        self.spent += n
        self.n_calls_total += 1
        if self.spent > self.budget:
            raise SimBudgetExceeded('rng-draws', self.spent)

    def _fire(self, kind):
        self.fired[kind] = self.fired.get(kind, 0) + 1

    def _apply_u(self, arr):
        """arr: 1-d float array of fresh uniforms -> substitute overrides, advance ordinal."""
        n = arr.shape[0]
        if self.u_over:
            for j in range(n):
                o = self.u_over.get(self.n_uniform + j)
                if o is not None:
                    arr[j] = o[1]
                    self._fire(o[0])
        self.n_uniform += n
        return arr

    # ---- numpy.random API --------------------------------------------------
    def seed(self, seed=None):
        self.calls.append(('seed', seed, None))
        self.n_calls_total += 1
        if seed is None:
            self.entropy = (self.entropy * 6364136223846793005 + 1442695040888963407) % (1 << 32)
            self.rs = numpy.random.RandomState(self.entropy)
        else:
            self.rs = numpy.random.RandomState(seed)

    def rand(self, *shape):
        n = int(numpy.prod(shape)) if shape else 1
        self._spend(n)
        if not shape:
            v = numpy.array([self.rs.rand()])
            v = self._apply_u(v)
            self.calls.append(('rand', (), v.copy()))
            return float(v[0])
        v = self.rs.rand(*shape)
        flat = self._apply_u(v.reshape(-1))
        v = flat.reshape(v.shape)
        self.calls.append(('rand', tuple(int(s) for s in shape), v.copy()))
        return v

    def random_sample(self, size=None):
        if size is None:
            return self.rand()
        if isinstance(size, (int, numpy.integer)):
            return self.rand(int(size))
        return self.rand(*size)

    random = random_sample
    sample = random_sample
    ranf = random_sample

    def uniform(self, low=0.0, high=1.0, size=None):
        if size is None:
            self._spend(1)
            v = numpy.array([self.rs.uniform(low, high)])
            if low == 0 and high == 1:
                v = self._apply_u(v)
            self.calls.append(('uniform', (low, high, None), v.copy()))
            return float(v[0])
        v = numpy.asarray(self.rs.uniform(low, high, size))
        self._spend(v.size)
        if numpy.ndim(low) == 0 and numpy.ndim(high) == 0 and low == 0 and high == 1:
            flat = self._apply_u(v.reshape(-1))
            v = flat.reshape(v.shape)
        self.calls.append(('uniform', (low, high, size), v.copy()))
        return v

    def poisson(self, lam=1.0, size=None):
        v = self.rs.poisson(lam, size)
        self._spend(1 if size is None else int(numpy.size(v)))
        if size is None:
            o = self.p_over.get(self.n_poisson)
            if o is not None:
                v = type(v)(o[1]) if not isinstance(v, int) else int(o[1])
                self._fire(o[0])
            self.n_poisson += 1
        else:
            self.n_poisson += int(numpy.size(v))
        self.calls.append(('poisson', (numpy.array(lam).tolist(), size), numpy.array(v).copy()))
        return v

    def choice(self, a, size=None, replace=True, p=None):
        v = self.rs.choice(a, size=size, replace=replace, p=p)
        self._spend(int(numpy.size(v)))
        self.calls.append(('choice', (numpy.array(a).tolist(), size, replace,
                                      None if p is None else numpy.array(p).tolist()),
                           numpy.array(v).copy()))
        return v

    def _passthrough(self, name):
        def f(*a, **k):
            v = getattr(self.rs, name)(*a, **k)
            self._spend(int(numpy.size(v)) if v is not None else 1)
            self.calls.append((name, None, None if v is None else numpy.array(v).copy()))
            return v
        return f

    # ---- install / remove --------------------------------------------------
    def install(self):
        if self._saved is not None:
            raise HarnessError('SimRandom installed twice')
        self._saved = {}
        for name in _RNG_NAMES:
            if not hasattr(numpy.random, name):
                continue
            self._saved[name] = getattr(numpy.random, name)
            impl = getattr(self, name, None)
            if impl is None or name in ('randint', 'permutation', 'shuffle', 'normal', 'multinomial',
                                        'exponential', 'binomial', 'randn'):
                impl = self._passthrough(name)
            setattr(numpy.random, name, impl)

    def remove(self):
        if self._saved is None:
            return
        for name, f in self._saved.items():
            setattr(numpy.random, name, f)
        self._saved = None


class SimClock:
    """One simulated instant (integer microseconds since the Unix epoch, UTC)."""

    def __init__(self, start_us):
        self.now_us = int(start_us)
        self.start_us = int(start_us)
        self.reads = 0
        self.auto_step_us = 0
        self._patches = []
        self.max_us = self.now_us
        self.min_us = self.now_us

    def set(self, us):
        self.now_us = int(us)
        self.max_us = max(self.max_us, self.now_us)
        self.min_us = min(self.min_us, self.now_us)

    def advance(self, us):
        self.set(self.now_us + int(us))

    def _read(self):
        self.reads += 1
        v = self.now_us
        if self.auto_step_us:
            self.advance(self.auto_step_us)
        return v

    def utc_datetime(self):
        us = self._read()
        return _dt.datetime(1970, 1, 1, tzinfo=_dt.timezone.utc) + _dt.timedelta(microseconds=us)

    def naive_local_datetime(self):
        # datetime.now(): local wall time according to the process TZ
        us = self._read()
        return _dt.datetime.fromtimestamp(us // 1000000).replace(microsecond=us % 1000000)

    def time(self):
        return self._read() / 1e6

    # -- patching ------------------------------------------------------------
    def install(self):
        import csep.core.catalogs as cc
        import csep.core.forecasts as cf
        import csep.core.catalog_evaluations as ce
        import csep.core.repositories as cr
        import csep.utils.time_utils as tu
        import csep
        clock = self

        class _Time:
            """stand-in for the `time` module as seen by one csep module"""
            def __getattr__(self, name):
                return getattr(_time, name)

            @staticmethod
            def time():
                return clock.time()

        class _DateTimeClass(_dt.datetime):
            @classmethod
            def now(cls, tz=None):
                if tz is None:
                    d = clock.naive_local_datetime()
                else:
                    d = clock.utc_datetime().astimezone(tz)
                return d

            @classmethod
            def utcnow(cls):
                return clock.utc_datetime().replace(tzinfo=None)

        class _DateTimeModule:
            def __getattr__(self, name):
                return getattr(_dt, name)
            datetime = _DateTimeClass

        def now_dt():
            return clock.utc_datetime()

        def now_epoch():
            return tu.datetime_to_utc_epoch(clock.utc_datetime())

        def patch(mod, name, val):
            if hasattr(mod, name):
                self._patches.append((mod, name, getattr(mod, name)))
                setattr(mod, name, val)

        # The library's own utc_now_datetime() / utc_now_epoch() keep running: only the `datetime` name they look up in
        # csep.utils.time_utils is replaced by a module proxy whose datetime class reads the simulated instant in
        # now() / utcnow(). (Replacing the functions themselves would hide the code under test behind the seam.)
        patch(tu, 'datetime', _DateTimeModule())
        patch(cf, 'time', _Time())
        patch(ce, 'time', _Time())
        patch(csep, 'time', _Time())
        patch(cr, 'datetime', _DateTimeModule())

    def remove(self):
        for mod, name, val in reversed(self._patches):
            setattr(mod, name, val)
        self._patches = []


TZ_CHOICES = ('UTC', 'Asia/Tokyo', 'America/Los_Angeles', 'Pacific/Chatham', 'Europe/London')


def set_tz(name):
    os.environ['TZ'] = name
    _time.tzset()


class SimStore:
    """Scratch directory + `open` proxy for the csep modules that touch files.

    The proxy counts opens / closes per path and asserts the write -> close -> read order that
    round-trip properties depend on. Fault injection (OSError at the k-th call) exists for the
    non-gating probe mode only.
    """

    def __init__(self):
        base = '/dev/shm' if os.path.isdir('/dev/shm') else None
        self.root = tempfile.mkdtemp(prefix='dsim-', dir=base)
        self.opens = 0
        self.writes_open = {}      # path -> number of currently open writers
        self.events = []
        self.order_errors = []
        self.fail_at = None        # probe mode: ordinal of the open() that raises
        self._patches = []

    def path(self, name):
        return os.path.join(self.root, name)

    def _open(self, file, mode='r', *a, **k):
        store = self
        self.opens += 1
        if self.fail_at is not None and self.opens == self.fail_at:
            raise OSError(28, 'simulated: No space left on device', str(file))
        p = os.fspath(file) if not isinstance(file, int) else file
        writing = any(c in mode for c in 'wax+')
        if not writing and self.writes_open.get(p, 0) > 0:
            self.order_errors.append(('read-while-open-for-write', p))
        f = builtins.open(file, mode, *a, **k)
        if writing:
            self.writes_open[p] = self.writes_open.get(p, 0) + 1
            orig_close = f.close

            def close():
                if not f.closed:
                    store.writes_open[p] -= 1
                return orig_close()
            try:
                f.close = close
            except AttributeError:
                pass
        return f

    def install(self):
        import csep.core.catalogs as cc
        import csep.core.repositories as cr
        import csep.utils.readers as rd
        import csep
        for mod in (cc, cr, rd, csep):
            had = 'open' in mod.__dict__
            self._patches.append((mod, had, mod.__dict__.get('open')))
            mod.open = self._open

    def remove(self):
        for mod, had, val in reversed(self._patches):
            if had:
                mod.open = val
            else:
                try:
                    del mod.open
                except AttributeError:
                    pass
        self._patches = []

    def cleanup(self):
        shutil.rmtree(self.root, ignore_errors=True)


class _Sink(io.TextIOBase):
    def write(self, s):
        return len(s)

    def flush(self):
        pass


@contextlib.contextmanager
def quiet():
    old = sys.stdout
    sys.stdout = _Sink()
    try:
        yield
    finally:
        sys.stdout = old
