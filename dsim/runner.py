"""Batch runner: seeded runs on a fork pool, violation triage, shrinking, replay files, evidence."""
import concurrent.futures
import faulthandler
import json
import multiprocessing
import os
import signal
import sys
import time
import traceback
import warnings

from .kernel import Ctx, HarnessError, SimBudgetExceeded, run_random, shape_digest, jsonable

VERIF_DIR = os.path.dirname(os.path.dirname(os.path.abspath(__file__)))
REPLAY_DIR = os.path.join(VERIF_DIR, 'replays')
EVIDENCE_DIR = os.path.join(VERIF_DIR, 'evidence')
FINDINGS_FILE = os.path.join(VERIF_DIR, 'known_findings.json')

RUN_WALL_LIMIT_S = 120          # backstop only; budgets inside the simulator are deterministic


def repo_path():
    return os.environ.get('VERIF_REPO') or '/repo'


def import_csep():
    """Import csep from the working tree under test (never from a cache or a build)."""
    sys.dont_write_bytecode = True
    rp = repo_path()
    if sys.path[0] != rp:
        sys.path.insert(0, rp)
    warnings.filterwarnings('ignore')
    os.environ.setdefault('MPLBACKEND', 'Agg')
    import csep  # noqa
    got = os.path.dirname(os.path.dirname(os.path.abspath(csep.__file__)))
    if os.path.realpath(got) != os.path.realpath(rp):
        raise HarnessError(f'csep imported from {got}, expected {rp}')
    import numpy
    numpy.seterr(all='ignore')
    return csep


def get_engine(name):
    import importlib
    mod = importlib.import_module('dsim.engines.' + name)
    return mod.ENGINE


def n_systematic(eng, tier, focus):
    if os.environ.get('VERIF_NO_SWEEP') or not hasattr(eng, 'systematic_count'):
        return 0
    return eng.systematic_count(tier, focus)


class _Timeout(BaseException):
    pass


def _alarm(signum, frame):
    raise _Timeout()


def execute_scenario(eng, scn, focus, keep_log=False, probes=False):
    """Run one literal scenario. Returns the Ctx. Harness failures raise HarnessError."""
    from .seams import quiet
    ctx = Ctx(focus=focus, probes=probes)
    ctx.keep_log = keep_log
    old = signal.signal(signal.SIGALRM, _alarm)
    signal.setitimer(signal.ITIMER_REAL, RUN_WALL_LIMIT_S)
    try:
        with quiet():
            eng.execute(scn, ctx)
    except _Timeout:
        raise HarnessError('wall-clock watchdog fired (run exceeded %ds)' % RUN_WALL_LIMIT_S)
    except SimBudgetExceeded as e:
        raise HarnessError('unhandled budget exception outside an op: %s' % e)
    finally:
        signal.setitimer(signal.ITIMER_REAL, 0)
        signal.signal(signal.SIGALRM, old)
    return ctx


def load_findings():
    try:
        with open(FINDINGS_FILE) as f:
            data = json.load(f)
    except FileNotFoundError:
        return []
    return data.get('findings', [])


def match_known(v, findings):
    import fnmatch
    for f in findings:
        if f.get('status') != 'known':
            continue
        if f['property'] == v['property'] and f['oracle'] == v['oracle'] and \
                fnmatch.fnmatchcase(v['signature'], f['signature']):
            return f
    return None


# --------------------------------------------------------------------------- shrinking

def shrink(eng, scn, key, focus, max_exec=300):
    """Greedy delta debugging over engine-provided candidates; keeps (property, oracle, signature)."""
    steps = 0
    execs = 0
    cur = scn
    improved = True
    while improved and execs < max_exec:
        improved = False
        for cand in eng.shrink_candidates(cur):
            execs += 1
            try:
                c = execute_scenario(eng, cand, focus)
            except HarnessError:
                c = None
            if c is not None and any(v.key == key for v in c.violations):
                cur = cand
                steps += 1
                improved = True
                break
            if execs >= max_exec:
                break
    return cur, steps, execs


# --------------------------------------------------------------------------- worker

_W = {}


def _worker_init(engine_name):
    faulthandler.enable()
    devnull = open(os.devnull, 'w')
    sys.stdout = devnull
    _W['eng'] = get_engine(engine_name)


def _run_chunk(args):
    (engine_name, focus, tier, seed, lo, hi, known_keys, do_shrink) = args
    eng = _W.get('eng') or get_engine(engine_name)
    out = []
    seen = set()
    recent = []       # the scenarios executed before in this (forked, then discarded) chunk process
    for idx in range(lo, hi):
        n_sys = n_systematic(eng, tier, focus)
        t0 = time.perf_counter()
        try:
            if idx < n_sys:
                scn = eng.systematic_at(idx, tier, focus)
            else:
                R = run_random(seed, engine_name, focus, idx - n_sys)
                scn = eng.generate(R, tier, focus)
            ctx = execute_scenario(eng, scn, focus)
        except HarnessError as e:
            out.append({'idx': idx, 'harness_error': str(e), 'tb': traceback.format_exc()})
            continue
        except Exception as e:  # bug in the harness itself
            out.append({'idx': idx, 'harness_error': repr(e), 'tb': traceback.format_exc()})
            continue
        res = {'idx': idx, 'digest': ctx.digest(), 'n_events': ctx.n_events, 'counters': ctx.counters,
               'states': sorted(ctx.states), 'transitions': sorted(ctx.transitions),
               'shape': shape_digest(eng.shape(scn)), 'nontrivial': bool(eng.nontrivial(scn, ctx)),
               'sim_time_ms': ctx.sim_time_ms, 'wall': time.perf_counter() - t0,
               'violations': [], 'other_violations': 0}
        if idx < lo + 2:
            res['sample'] = eng.sample_view(scn)
        for v in ctx.violations:
            if v['property'] != focus:
                res['other_violations'] += 1
                continue
            entry = dict(v)
            k = v.key
            if k not in seen and match_known(v, known_keys) is None and do_shrink and len(seen) < 6:
                seen.add(k)
                small, steps, execs = shrink(eng, scn, k, focus)
                c2 = execute_scenario(eng, small, focus)
                vv = [x for x in c2.violations if x.key == k]
                path = os.path.join(REPLAY_DIR, '%s-%d-%d-%s.json' % (
                    focus, seed, idx, shape_digest(list(k))[:8]))
                os.makedirs(REPLAY_DIR, exist_ok=True)
                with open(path, 'w') as f:
                    json.dump({'engine': engine_name, 'property': focus, 'seed': seed, 'run': idx,
                               'tier': tier, 'scenario': small, 'violation': dict(vv[0]) if vv else dict(v),
                               'minimised': True, 'shrink_steps': steps, 'shrink_executions': execs,
                               'digest': c2.digest()}, f, indent=1, sort_keys=True)
                entry['replay'] = path
                _confirm_standalone(path, list(recent))
            res['violations'].append(entry)
        recent.append(scn)
        out.append(res)
    return out


def _confirm_standalone(path, predecessors):
    """A replay file must reproduce in a fresh process. If the violation needs state left in the process by earlier
    runs (module-level caches), the scenarios this worker executed before are stored in the file and replayed first."""
    import subprocess
    cmd = [os.path.join(VERIF_DIR, 'check'), '--replay', path]
    env = dict(os.environ)
    try:
        p = subprocess.run(cmd, env=env, stdout=subprocess.PIPE, stderr=subprocess.STDOUT, text=True, timeout=300)
        if p.returncode == 1:
            return
        with open(path) as f:
            rep = json.load(f)
        rep['predecessors'] = predecessors
        rep['note'] = ('the violation does not reproduce from this scenario alone in a fresh process; the scenarios the worker '
                       'executed before it are replayed first (state left behind in the process)')
        with open(path, 'w') as f:
            json.dump(rep, f, indent=1, sort_keys=True)
        p = subprocess.run(cmd, env=env, stdout=subprocess.PIPE, stderr=subprocess.STDOUT, text=True, timeout=600)
        if p.returncode != 1:
            rep['note'] = 'NOT reproducible in a fresh process even with the recorded process history'
            with open(path, 'w') as f:
                json.dump(rep, f, indent=1, sort_keys=True)
    except Exception:
        pass


def _run_chunk_isolated(args):
    """Run one chunk in a forked child that is discarded afterwards: whatever a run leaves behind in the process
    (module-level caches in the library) can only reach the later runs of the same chunk, and those predecessors are
    known, so every violation stays exactly replayable (see _confirm_standalone)."""
    import pickle
    rfd, wfd = os.pipe()
    pid = os.fork()
    if pid == 0:
        os.close(rfd)
        try:
            data = pickle.dumps(_run_chunk(args))
        except BaseException as e:       # noqa
            data = pickle.dumps([{'idx': args[4], 'harness_error': 'chunk process died: %r' % (e,),
                                  'tb': traceback.format_exc()}])
        with os.fdopen(wfd, 'wb') as f:
            f.write(data)
        os._exit(0)
    os.close(wfd)
    with os.fdopen(rfd, 'rb') as f:
        data = f.read()
    os.waitpid(pid, 0)
    if not data:
        return [{'idx': args[4], 'harness_error': 'chunk process produced no result (crashed?)', 'tb': ''}]
    return pickle.loads(data)


# --------------------------------------------------------------------------- driver

def run_batch(engine_name, focus, tier, seed, n_runs, workers=None, do_shrink=True, chunk=None):
    import_csep()
    eng = get_engine(engine_name)
    findings = load_findings()
    known_patterns = [f for f in findings if f.get('status') == 'known' and f['property'] == focus]
    workers = workers or int(os.environ.get('VERIF_WORKERS', '0')) or min(16, os.cpu_count() or 1)
    n_sys = n_systematic(eng, tier, focus)
    n_runs = n_runs + n_sys
    chunk = chunk or max(1, min(50, n_runs // (workers * 4) or 1))
    tasks = []
    lo = 0
    while lo < n_runs:
        hi = min(n_runs, lo + chunk)
        tasks.append((engine_name, focus, tier, seed, lo, hi, known_patterns, do_shrink))
        lo = hi
    t0 = time.time()
    results = []
    if workers == 1:
        _W['eng'] = eng
        for t in tasks:
            results.extend(_run_chunk_isolated(t))
    else:
        mp = multiprocessing.get_context('fork')
        faulthandler.dump_traceback_later(3500, exit=False)
        with concurrent.futures.ProcessPoolExecutor(max_workers=workers, mp_context=mp,
                                                    initializer=_worker_init,
                                                    initargs=(engine_name,)) as ex:
            if os.environ.get('VERIF_STOP_AFTER_NEW'):
                # sensitivity mode only (never used by a registered check): stop dispatching once a chunk reported a
                # violation that is not a known finding; the partial batch is enough to say "caught"
                futs = [ex.submit(_run_chunk_isolated, t) for t in tasks]
                for fu in concurrent.futures.as_completed(futs):
                    part = fu.result()
                    results.extend(part)
                    if any(match_known(v, known_patterns) is None for r in part for v in r.get('violations', [])):
                        for g in futs:
                            g.cancel()
                        break
                for g in futs:
                    if g.done() and not g.cancelled() and g.exception() is None and g.result() and \
                            g.result()[0]['idx'] not in {r['idx'] for r in results}:
                        results.extend(g.result())
            else:
                for part in ex.map(_run_chunk_isolated, tasks):
                    results.extend(part)
        faulthandler.cancel_dump_traceback_later()
    wall = time.time() - t0
    results.sort(key=lambda r: r['idx'])
    return eng, results, wall, known_patterns


def summarise(engine_name, eng, focus, tier, seed, results, wall, known_patterns, extra=None):
    """Aggregate, print VIOLATION / KNOWN-FINDING lines, write evidence. Returns exit code."""
    herrs = [r for r in results if 'harness_error' in r]
    ok = [r for r in results if 'harness_error' not in r]
    counters = {}
    states = set()
    transitions = set()
    shapes = set()
    nontrivial_shapes = set()
    digests = []
    samples = []
    sim_ms = 0
    other = 0
    for r in ok:
        for k, v in r['counters'].items():
            counters[k] = counters.get(k, 0) + v
        states.update(tuple(s) if isinstance(s, list) else s for s in r['states'])
        transitions.update(tuple(map(_tup, t)) for t in r['transitions'])
        shapes.add(r['shape'])
        if r['nontrivial']:
            nontrivial_shapes.add(r['shape'])
        digests.append(r['digest'])
        sim_ms += r['sim_time_ms']
        other += r['other_violations']
        if 'sample' in r and len(samples) < 4:
            samples.append(r['sample'])
    # violations grouped by class, first occurrence (lowest run index) wins
    classes = {}
    for r in ok:
        for v in r['violations']:
            k = (v['property'], v['oracle'], v['signature'])
            c = classes.setdefault(k, {'first': v, 'run': r['idx'], 'count': 0, 'replay': None})
            c['count'] += 1
            if v.get('replay') and c['replay'] is None:
                c['replay'] = v['replay']
    n_new = 0
    lines = []
    for k in sorted(classes):
        c = classes[k]
        kf = match_known(c['first'], known_patterns)
        if kf is not None:
            lines.append('KNOWN-FINDING: property=%s %s [oracle=%s signature=%s runs=%d]' % (
                focus, kf.get('what', ''), k[1], k[2], c['count']))
            # replays written for a class that is known are not needed
            if c['replay'] and os.path.exists(c['replay']):
                os.remove(c['replay'])
        else:
            n_new += 1
            lines.append('VIOLATION property=%s replay=%s oracle=%s signature=%s runs=%d first_run=%d' % (
                focus, c['replay'] or 'none', k[1], k[2], c['count'], c['run']))
    import hashlib
    batch_digest = hashlib.sha256('\n'.join(digests).encode()).hexdigest()
    ev = {
        'property_id': focus,
        'tier': tier,
        'seed': int(seed),
        'level': 'exploration',
        'coverage': {
            'evaluations': len(ok),
            'distinct_nontrivial': len(nontrivial_shapes),
            'rule': eng.rule(focus),
            'samples': samples,
            'distinct_scenarios': len(shapes),
            'abstract_states': len(states),
            'abstract_transitions': len(transitions),
            'counters': {k: counters[k] for k in sorted(counters)},
            'fault_kinds_fired': {k[5:]: counters[k] for k in sorted(counters) if k.startswith('fire:')},
            'rare_conditions_hit': {k[5:]: counters[k] for k in sorted(counters) if k.startswith('rare:')},
            'simulated_time_s': sim_ms / 1000.0,
            'runs_per_hour': int(len(ok) / wall * 3600) if wall > 0 else 0,
            'event_log_entries': sum(r['n_events'] for r in ok),
            'batch_digest': batch_digest,
            'components': eng.components(),
            'violations_of_other_properties_seen': other,
            'violation_classes': [{'oracle': k[1], 'signature': k[2], 'runs': classes[k]['count']}
                                  for k in sorted(classes)],
            'harness_errors': len(herrs),
            'workers': int(os.environ.get('VERIF_WORKERS', '0')) or min(16, os.cpu_count() or 1),
        },
        'assumptions': eng.assumptions(focus),
        'wall_s': round(wall, 3),
        'violations': n_new,
    }
    n_sys = n_systematic(eng, tier, focus)
    if n_sys:
        ev['coverage']['systematic_runs'] = n_sys
        ev['coverage']['systematic_rule'] = eng.systematic_rule(tier, focus)
    if extra:
        ev['coverage'].update(extra)
    evdir = EVIDENCE_DIR
    if os.environ.get('VERIF_SCRATCH_EVIDENCE'):
        import tempfile
        evdir = tempfile.mkdtemp(prefix='dsim-ev-', dir='/dev/shm')
    os.makedirs(evdir, exist_ok=True)
    with open(os.path.join(evdir, focus + '.json'), 'w') as f:
        json.dump(jsonable(ev), f, indent=1, sort_keys=True)
    # replay files of this (property, seed) that were not selected are removed
    chosen = {c['replay'] for c in classes.values() if c['replay']}
    for r in ok:
        for v in r['violations']:
            p = v.get('replay')
            if p and p not in chosen and os.path.exists(p):
                os.remove(p)
    if os.environ.get('VERIF_SCRATCH_EVIDENCE'):
        import shutil
        shutil.rmtree(evdir, ignore_errors=True)
    for ln in lines:
        print(ln)
    print('%s %s seed=%d runs=%d ok=%d distinct_nontrivial=%d states=%d transitions=%d wall=%.1fs '
          'runs/h=%d new_violation_classes=%d harness_errors=%d digest=%s' % (
              focus, tier, seed, len(results), len(ok), len(nontrivial_shapes), len(states),
              len(transitions), wall, ev['coverage']['runs_per_hour'], n_new, len(herrs),
              batch_digest[:16]))
    if herrs:
        for r in herrs[:3]:
            print('HARNESS-ERROR run=%d %s' % (r['idx'], r['harness_error']), file=sys.stderr)
            print(r.get('tb', ''), file=sys.stderr)
        return 2 if n_new == 0 else 1
    return 1 if n_new else 0


def _tup(x):
    return tuple(_tup(y) for y in x) if isinstance(x, (list, tuple)) else x


def replay(path):
    import_csep()
    with open(path) as f:
        rep = json.load(f)
    eng = get_engine(rep['engine'])
    for pre in rep.get('predecessors', []):
        try:
            execute_scenario(eng, pre, rep['property'])
        except HarnessError:
            pass
    ctx = execute_scenario(eng, rep['scenario'], rep['property'], keep_log=True)
    want = rep.get('violation') or {}
    wkey = (want.get('property'), want.get('oracle'), want.get('signature'))
    got = [v for v in ctx.violations if v['property'] == rep['property']]
    same = [v for v in got if v.key == wkey]
    for v in got:
        print('replayed: property=%s oracle=%s signature=%s detail=%s' % (
            v['property'], v['oracle'], v['signature'], json.dumps(v['detail'])[:600]))
    print('digest=%s recorded=%s' % (ctx.digest(), rep.get('digest')))
    if same:
        print('VIOLATION property=%s replay=%s' % (rep['property'], path))
        return 1
    if got:
        print('a different violation class reproduced (recorded: %s)' % (wkey,))
        return 1
    print('recorded violation did not reproduce on this tree')
    return 0
