"""Scenario generators (pure Python, no csep import): lattices, magnitude bins, events.

Everything returned is literal JSON-able data. Points are placed strictly inside cells / bins
(fractions 1/4, 1/2, 3/4 of a cell) unless a caller asks for corners explicitly, so that the
cell / bin of every event is unambiguous and engines do not re-judge C01/C02.
"""
import math

DH_CHOICES = (0.1, 0.2, 0.25, 0.5, 1.0)
FRACS = (0.25, 0.5, 0.75)


def dec(x, nd=6):
    """round to a clean decimal (avoid float wander in literal coordinates)"""
    return float(round(x, nd))


def gen_lattice(R, max_cells=12, allow_holes=True):
    """A subset of a regular lattice: list of [lon, lat] origins (+ dh).

    Returns dict(kind='cart', dh, origins, holes=[...origins in the bbox that are not cells]).
    Origins are listed in a random order (cell order is a delivery dimension).
    """
    dh = R.choice(DH_CHOICES)
    nx = R.randint(1, 4)
    ny = R.randint(1, 4)
    while nx * ny > max_cells:
        if nx >= ny:
            nx -= 1
        else:
            ny -= 1
    # decimal anchor, multiples of dh so that origins are clean decimals
    ax = R.randint(-40, 40) * dh * R.choice((1, 1, 3, 7))
    ay = R.randint(-30, 30) * dh * R.choice((1, 1, 3, 5))
    ax = max(-170.0, min(160.0, ax))
    ay = max(-70.0, min(60.0, ay))
    cells = []
    for i in range(nx):
        for j in range(ny):
            cells.append([dec(ax + i * dh), dec(ay + j * dh)])
    holes = []
    if allow_holes and len(cells) > 2 and R.random() < 0.5:
        k = R.randint(1, max(1, len(cells) // 3))
        # never remove the corner cells that define the bounding box
        corner = {(dec(ax), dec(ay)), (dec(ax + (nx - 1) * dh), dec(ay + (ny - 1) * dh))}
        cand = [c for c in cells if tuple(c) not in corner]
        R.shuffle(cand)
        for c in cand[:k]:
            cells.remove(c)
            holes.append(c)
    R.shuffle(cells)
    return {'kind': 'cart', 'dh': dh, 'origins': cells, 'holes': holes,
            'bbox': [dec(ax), dec(ay), dec(ax + nx * dh), dec(ay + ny * dh)]}


def gen_quadtree(R):
    """Small quadtree grid given by prefix-free quadkeys (zoom 1, or zoom 1 with one tile split)."""
    keys = ['0', '1', '2', '3']
    if R.random() < 0.6:
        k = R.choice(keys)
        keys.remove(k)
        keys.extend([k + d for d in '0123'])
        if R.random() < 0.3:
            k2 = R.choice([q for q in keys if len(q) == 2])
            keys.remove(k2)
            keys.extend([k2 + d for d in '0123'])
    R.shuffle(keys)
    return {'kind': 'quad', 'quadkeys': keys}


def quadkey_bounds(qk):
    """[lon_w, lat_s, lon_e, lat_n] of a quadkey tile (Web-Mercator), pure python."""
    x = y = 0
    z = len(qk)
    for ch in qk:
        d = int(ch)
        x = (x << 1) | (d & 1)
        y = (y << 1) | ((d >> 1) & 1)
    n = 1 << z

    def lon(xx):
        return xx / n * 360.0 - 180.0

    def lat(yy):
        t = math.pi * (1 - 2 * yy / n)
        return math.degrees(math.atan(math.sinh(t)))
    return [lon(x), lat(y + 1), lon(x + 1), lat(y)]


def gen_mags(R, max_bins=5):
    dm = R.choice((0.1, 0.1, 0.2, 0.5, 1.0, 0.125, 0.05, 0.25))
    m0 = R.choice((2.5, 3.0, 3.95, 4.0, 4.95, 5.0, 5.95, 3.975, 5.125))
    n = R.randint(1, max_bins)
    # clean decimals
    return {'dm': dm, 'edges': [dec(m0 + k * dm, 4) for k in range(n)]}


def point_in_cell(R, region, cell_idx):
    """(lon, lat) strictly inside cell cell_idx of a literal region."""
    if region['kind'] == 'cart':
        o = region['origins'][cell_idx]
        dh = region['dh']
        return dec(o[0] + dh * R.choice(FRACS), 8), dec(o[1] + dh * R.choice(FRACS), 8)
    b = quadkey_bounds(region['quadkeys'][cell_idx])
    fx, fy = R.choice(FRACS), R.choice(FRACS)
    return dec(b[0] + (b[2] - b[0]) * fx, 6), dec(b[1] + (b[3] - b[1]) * fy, 6)


def n_cells(region):
    return len(region['origins']) if region['kind'] == 'cart' else len(region['quadkeys'])


def point_outside(R, region):
    """(lon, lat) clearly outside the region: in a hole, or beyond the bounding box.

    Beyond the upper / right side only when that axis has at least two bins: for a lattice with a
    single row or column the library treats the one bin as open-ended upwards (C01's business).
    """
    if region['kind'] == 'cart':
        dh = region['dh']
        if region['holes'] and R.random() < 0.6:
            o = R.choice(region['holes'])
            return dec(o[0] + dh * 0.5, 8), dec(o[1] + dh * 0.5, 8)
        b = region['bbox']
        nx = int(round((b[2] - b[0]) / dh))
        ny = int(round((b[3] - b[1]) / dh))
        sides = [0, 2]
        if nx >= 2:
            sides.append(1)
        if ny >= 2:
            sides.append(3)
        side = R.choice(sides)
        fx = R.randrange(nx) + 0.5
        fy = R.randrange(ny) + 0.5
        if dh in (0.25, 0.5, 1.0) and side in (1, 3) and R.random() < 0.4:
            # exactly ON the outer east / north edge (exact binary fractions): outside by the half-open convention
            if side == 1:
                return float(b[2]), dec(b[1] + dh * fy, 8)
            return dec(b[0] + dh * fx, 8), float(b[3])
        if side == 0:
            return dec(b[0] - dh * 1.5, 8), dec(b[1] + dh * fy, 8)
        if side == 1:
            return dec(b[2] + dh * 1.5, 8), dec(b[1] + dh * fy, 8)
        if side == 2:
            return dec(b[0] + dh * fx, 8), dec(b[1] - dh * 1.5, 8)
        return dec(b[0] + dh * fx, 8), dec(b[3] + dh * 1.5, 8)
    return None


def mag_in_bin(R, mags, k, open_top=True):
    """magnitude strictly inside bin k (the last bin is open-ended: may go far above)."""
    e = mags['edges']
    dm = mags['dm']
    if k == len(e) - 1 and open_top and R.random() < 0.3:
        return dec(e[k] + dm * R.choice((1.5, 2.25, 7.5)), 6)
    return dec(e[k] + dm * R.choice(FRACS), 6)


T0_MS = 1262304000000      # 2010-01-01T00:00:00Z
YEAR_MS = 365 * 86400 * 1000


def gen_time_ms(R, start_ms=T0_MS, end_ms=T0_MS + YEAR_MS):
    """an instant strictly inside the window, whole milliseconds; some on whole seconds"""
    t = R.randint(start_ms + 1000, end_ms - 1000)
    if R.random() < 0.3:
        t -= t % 1000
    return t


def gen_event(R, region, mags, cell=None, mbin=None, eid=None, start_ms=T0_MS, end_ms=T0_MS + YEAR_MS):
    nc = n_cells(region)
    ci = R.randrange(nc) if cell is None else cell
    mk = R.randrange(len(mags['edges'])) if mbin is None else mbin
    lon, lat = point_in_cell(R, region, ci)
    return [eid if eid is not None else 'e%d' % R.randint(0, 99999), gen_time_ms(R, start_ms, end_ms),
            lat, lon, dec(R.choice((0.0, 5.5, 10.0, 33.3)), 3), mag_in_bin(R, mags, mk)], ci, mk


def time_string(t_ms, fraction=True):
    """'%Y-%m-%dT%H:%M:%S[.ffffff]' for an integer epoch millisecond, pure integer arithmetic."""
    import datetime
    d = datetime.datetime(1970, 1, 1) + datetime.timedelta(milliseconds=t_ms)
    s = d.strftime('%Y-%m-%dT%H:%M:%S')
    if fraction:
        s += '.%06d' % d.microsecond
    return s


def lattice_twin(R, region):
    """A second lattice with the same spacing, number of cells and lon/lat extent but a different set of cells
    (one cell moved into a hole, or - if there is no hole - none: returns None). Anything keyed by such a summary
    of a region instead of its cells confuses the two."""
    if region['kind'] != 'cart':
        return None
    xs = [o[0] for o in region['origins']]
    ys = [o[1] for o in region['origins']]
    protected = {(min(xs), min(ys)), (max(xs), max(ys)), (min(xs), max(ys)), (max(xs), min(ys))}
    movable = [o for o in region['origins'] if tuple(o) not in protected]
    # the twin must keep the extent: only move a cell whose row and column stay occupied
    holes = list(region['holes'])
    if not movable or not holes:
        return None
    R.shuffle(movable)
    for cell in movable:
        hole = R.choice(holes)
        new_cells = [o for o in region['origins'] if o != cell] + [hole]
        nx_ = {o[0] for o in new_cells}
        ny_ = {o[1] for o in new_cells}
        if nx_ == set(xs) and ny_ == set(ys):
            t = dict(region)
            t['origins'] = new_cells
            t['holes'] = [h for h in holes if h != hole] + [cell]
            return t
    return None
