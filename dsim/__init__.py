"""dsim - deterministic simulation with fault injection for pyCSEP.

One integer (VERIF_SEED) decides every run; see /verif/DESIGN.md.
"""
