"""Engine A `fcsim`: CatalogForecast history simulator (properties C13, C10; feeds C18/C20).

A run builds one catalog forecast in a drawn storage / filter configuration and drives it through
a history of operations; after every op the C13 oracles compare it with a twin that has no
history, and the C10 oracles compare every evaluation with the documented statistic computed by
a reference model from the literal catalogs and the recorded random draws.
"""
import copy

import numpy

from .. import gen, build, models
from ..kernel import SimBudgetExceeded, hexf
from ..seams import SimRandom, SimClock, SimStore, set_tz, TZ_CHOICES

TESTS = ('number', 'spatial', 'magnitude', 'pseudolikelihood', 'resampled_magnitude',
         'MLL_magnitude', 'MLL_magnitude_full')
PLAIN_OPS = ('ITER', 'COUNTS', 'RATES', 'SPATIAL', 'MAGS', 'NCAT')


# --------------------------------------------------------------------------- generation

def _gen_catalog_events(R, region, mags, cid, n, start_ms, end_ms):
    evs = []
    for k in range(n):
        ev, ci, mk = gen.gen_event(R, region, mags, eid='c%de%d' % (cid, k), start_ms=start_ms, end_ms=end_ms)
        evs.append(ev)
    return evs


def generate(R, tier, focus):
    thorough = tier == 'thorough'
    quad = R.random() < 0.12
    region = gen.gen_quadtree(R) if quad else gen.gen_lattice(R, max_cells=12)
    mags = gen.gen_mags(R, max_bins=5)
    if focus == 'C10' and len(mags['edges']) < 2 and R.random() < 0.7:
        mags = {'dm': mags['dm'], 'edges': mags['edges'] + [gen.dec(mags['edges'][0] + mags['dm'], 4)]}
    J = R.randint(1, 8)
    if thorough and R.random() < 0.3:
        J = R.randint(9, 24)
    # rare large worlds, just past the sizes where a chunked / narrow-counter implementation would plausibly change regime
    scale = None
    if R.random() < (0.004 if not thorough else 0.006):
        scale = R.choice(('many_catalogs', 'many_catalogs', 'many_catalogs', 'heavy_bin', 'block_aligned', 'block_aligned',
                          'block_aligned'))
    if scale == 'many_catalogs':
        J = R.choice((64, 100, 128, 256))
    elif scale == 'block_aligned':
        J = R.randint(3, 6)
    start_ms = gen.T0_MS + R.choice((0, 86400000 * 31, 123456000))
    end_ms = start_ms + R.choice((30, 365)) * 86400000
    p_empty = R.choice((0.0, 0.2, 0.5))
    max_ev = R.choice((2, 4, 6)) if not thorough else R.choice((2, 6, 15))
    if scale == 'many_catalogs':
        max_ev = 2
    cats = []
    for cid in range(J):
        n = 0 if R.random() < p_empty else R.randint(1, max_ev)
        cats.append(_gen_catalog_events(R, region, mags, cid, n, start_ms, end_ms))
    if R.random() < 0.25:
        cats[0] = []
    if R.random() < 0.25:
        cats[-1] = []
    if J >= 3 and R.random() < 0.2:
        i = R.randrange(J - 1)
        cats[i] = []
        cats[i + 1] = []
    forced_encoding = None
    align = None
    if scale == 'heavy_bin':
        # more events in one space-magnitude bin than a 16-bit counter holds
        c0, k0 = R.randrange(gen.n_cells(region)), R.randrange(len(mags['edges']))
        base_ev = gen.gen_event(R, region, mags, cell=c0, mbin=k0, eid='h', start_ms=start_ms, end_ms=end_ms)[0]
        hid = R.randrange(J)
        cats[hid] = [[('h%d' % k)] + base_ev[1:] for k in range(65536 + R.randint(1, 300))]
    elif scale == 'block_aligned':
        # streamed file in which one catalog ends exactly on line B (B a plausible block size) and the next catalog id
        # is skipped (an empty catalog that is not listed)
        B = R.choice((1000, 1024, 4096))
        forced_encoding = {'header': R.random() < 0.5, 'placeholders': False, 'fraction': True}
        a_ = R.randrange(J - 1)
        for cid in range(J):
            if not cats[cid] and cid != a_ + 1:
                cats[cid] = _gen_catalog_events(R, region, mags, cid, 1, start_ms, end_ms)
        cats[a_ + 1] = []
        if a_ + 1 == J - 1:
            cats.append(_gen_catalog_events(R, region, mags, J, 2, start_ms, end_ms))
            J += 1
        align = (B, a_)
    if R.random() < 0.1 and scale is None:          # concentrate everything in one cell: many unsampled cells
        c0 = R.randrange(gen.n_cells(region))
        for cid in range(J):
            cats[cid] = [gen.gen_event(R, region, mags, cell=c0, eid='c%de%d' % (cid, k),
                                       start_ms=start_ms, end_ms=end_ms)[0]
                         for k in range(len(cats[cid]))]
    cfg = {
        'source': R.choice(('list', 'file', 'file', 'file')),
        'store': R.random() < 0.6,
        'wrapper': R.choice(('gen', 'iter')),
        'n_cat_given': R.random() < 0.5,
        'list_region': R.random() < 0.5,
        'apply_filters': R.random() < 0.6,
        'filters_where': R.choice(('ctor', 'assign')),
        'filters': [],
        'filter_spatial': False,
        'encoding': {'header': R.random() < 0.5, 'placeholders': R.random() < 0.5,
                     'fraction': R.random() < 0.7},
    }
    if forced_encoding is not None:
        cfg['source'] = 'file'
        cfg['encoding'] = forced_encoding
    if cfg['source'] == 'list':
        cfg['n_cat_given'] = True
        # in-memory catalogs are user objects: they may carry their own `filters` attribute or their own region
        cfg['cat_filters_attr'] = R.random() < 0.3
        cfg['list_region'] = R.choice((False, True, True, 'other', 'permuted', 'other_mags'))
        cfg['list_region_perm_seed'] = R.randint(0, 10 ** 6)
    cfg['low_mag_unfiltered'] = False
    cfg['warm_cats'] = R.random() < 0.3
    cfg['obs_history'] = R.choice((0, 0, R.randint(1, 10 ** 6)))
    cfg['share_region_object'] = R.random() < 0.5
    if cfg['apply_filters']:
        kinds = [k for k in ('mag', 'time') if R.random() < 0.6]
        min_mw = mags['edges'][0]
        for k in kinds:
            if k == 'mag':
                cfg['filters'].append('magnitude >= %r' % min_mw)
            else:
                cfg['filters'].append('origin_time >= %d' % start_ms)
                cfg['filters'].append('origin_time < %d' % end_ms)
        if not quad and (R.random() < 0.5 or cfg.get('list_region') == 'other'):
            cfg['filter_spatial'] = True
        R.shuffle(cfg['filters'])
        # outsiders, only where the matching filter removes them again
        for cid in range(J):
            if R.random() < 0.5:
                continue
            extra = []
            if 'mag' in kinds and R.random() < 0.6:
                ev, _, _ = gen.gen_event(R, region, mags, eid='c%dlow' % cid, start_ms=start_ms, end_ms=end_ms)
                ev[5] = gen.dec(min_mw - mags['dm'] * R.choice((0.25, 0.5, 3.0)), 6)
                extra.append(ev)
            if 'time' in kinds and R.random() < 0.6:
                ev, _, _ = gen.gen_event(R, region, mags, eid='c%dt' % cid, start_ms=start_ms, end_ms=end_ms)
                ev[1] = R.choice((start_ms - 1, start_ms - 86400000, end_ms, end_ms + 5000))
                extra.append(ev)
            if 'time' in kinds and R.random() < 0.3:
                ev, _, _ = gen.gen_event(R, region, mags, eid='c%dt0' % cid, start_ms=start_ms, end_ms=end_ms)
                ev[1] = R.choice((start_ms, end_ms - 1))        # boundary instants that are kept
                extra.append(ev)
            if cfg['filter_spatial'] and R.random() < 0.6:
                p = gen.point_outside(R, region)
                if p is not None:
                    ev, _, _ = gen.gen_event(R, region, mags, eid='c%dout' % cid, start_ms=start_ms, end_ms=end_ms)
                    ev[3], ev[2] = p
                    extra.append(ev)
            if cfg.get('list_region') == 'other' and cfg['filter_spatial']:
                # inside the catalogs' own (larger) region, outside the forecast region
                extra_cells = [c for c in big_region(region)['origins'] if c not in region['origins']]
                if extra_cells:
                    o = R.choice(extra_cells)
                    ev, _, _ = gen.gen_event(R, region, mags, eid='c%dbig' % cid, start_ms=start_ms, end_ms=end_ms)
                    ev[3], ev[2] = gen.dec(o[0] + region['dh'] * 0.5, 8), gen.dec(o[1] + region['dh'] * 0.5, 8)
                    extra.append(ev)
            for ev in extra:
                cats[cid].insert(R.randint(0, len(cats[cid])), ev)
    if cfg.get('list_region') == 'other' and (quad or not cfg['filter_spatial']):
        cfg['list_region'] = True
    cfg['outside_unfiltered'] = False
    if not quad and not cfg['filter_spatial'] and R.random() < 0.08:
        # events outside the region and no spatial filter: legal as long as nothing is gridded (gridding raises)
        cfg['outside_unfiltered'] = True
        for cid in range(J):
            if R.random() < 0.6:
                p_ = gen.point_outside(R, region)
                ev, _, _ = gen.gen_event(R, region, mags, eid='c%dfar' % cid, start_ms=start_ms, end_ms=end_ms)
                ev[3], ev[2] = p_
                cats[cid].insert(R.randint(0, len(cats[cid])), ev)
    if not cfg['apply_filters'] and R.random() < 0.12:
        # events below the first magnitude bin and no magnitude filter: legal as long as nothing is gridded
        cfg['low_mag_unfiltered'] = True
        for cid in range(J):
            if R.random() < 0.6:
                ev, _, _ = gen.gen_event(R, region, mags, eid='c%dlow' % cid, start_ms=start_ms, end_ms=end_ms)
                ev[5] = gen.dec(mags['edges'][0] - mags['dm'] * R.choice((0.25, 0.5, 2.0)), 6)
                cats[cid].insert(R.randint(0, len(cats[cid])), ev)
    if align is not None:
        # all insertions are done: pad catalog a_ so that its last line is line B of the file
        B, a_ = align
        cats[a_ + 1] = []
        before = (1 if forced_encoding['header'] else 0) + sum(len(cats[i]) for i in range(a_)) + len(cats[a_])
        cats[a_] = cats[a_] + _gen_catalog_events(R, region, mags, 700 + a_, max(0, B - before), start_ms, end_ms)
    # observed catalogs
    obs = []
    for oi in range(R.randint(1, 3)):
        kind = R.choice(('empty', 'single', 'normal', 'normal', 'unsampled', 'many', 'copy'))
        if kind == 'empty':
            evs = []
        elif kind == 'single':
            evs = _gen_catalog_events(R, region, mags, 900 + oi, 1, start_ms, end_ms)
        elif kind == 'many':
            c0 = R.randrange(gen.n_cells(region))
            evs = [gen.gen_event(R, region, mags, cell=c0, eid='o%de%d' % (oi, k), start_ms=start_ms,
                                 end_ms=end_ms)[0] for k in range(R.randint(3, 8))]
        elif kind == 'copy' and any(cats):
            src = R.choice([c for c in cats if c])
            evs = [list(e) for e in src if _keeps(e, cfg, start_ms, end_ms, mags) and _inside(e, region)]
        else:       # normal / unsampled: uniform over cells, so unsampled cells are hit often
            evs = _gen_catalog_events(R, region, mags, 900 + oi, R.randint(1, 7), start_ms, end_ms)
        obs.append({'kind': kind, 'events': evs})
    # ops
    n_ops = R.randint(1, 10) if not thorough else R.randint(1, 24)
    if scale is not None:
        n_ops = R.randint(2, 4) if scale == 'heavy_bin' else R.randint(3, 8)
    testable = [t for t in TESTS if len(mags['edges']) >= 2 or t in TESTS[:4]]
    plain_ops = PLAIN_OPS
    if cfg['low_mag_unfiltered']:
        testable = ['number']
        plain_ops = ('ITER', 'COUNTS', 'NCAT')
    if not any(model_filter(cats, cfg, region)):
        # N_U = 0: the resampling tests are undefined (documented precondition)
        testable = [t for t in testable if t in TESTS[:4]]
    p_test = 0.65 if focus in ('C10', 'C18', 'C20') else 0.4
    ops = []
    for _ in range(n_ops):
        if R.random() < p_test:
            ops.append({'op': 'TEST', 'name': R.choice(testable), 'obs': R.randrange(len(obs)),
                        'rng_state': R.randint(0, 2 ** 31 - 1), 'verbose': R.random() < 0.3,
                        'seed': R.choice((None, 1, 7, 2 ** 32 - 1, R.randint(1, 10 ** 6)))})
        elif focus in ('C10', 'C18') and R.random() < 0.15:
            ops.append({'op': 'CALIBRATION', 'delta_1': R.random() < 0.5})
        elif R.random() < 0.08:
            # a second, different forecast on the same region is used in between (two objects alternately)
            ops.append({'op': 'OTHER_FC', 'what': R.choice(('rates', 'rates', 'iterate', 'spatial', 'counts'))})
        else:
            ops.append({'op': R.choice(plain_ops), 'verbose': R.random() < 0.3})
    if scale in ('many_catalogs', 'block_aligned'):
        # a large world is rare: let it meet every test once (in a drawn order), with a few plain ops in between
        ops = [{'op': 'TEST', 'name': t, 'obs': R.randrange(len(obs)), 'rng_state': R.randint(0, 2 ** 31 - 1), 'verbose': False,
                'seed': R.choice((None, 1, 7))} for t in testable]
        R.shuffle(ops)
        for _ in range(R.randint(1, 3)):
            ops.insert(R.randint(0, len(ops)), {'op': R.choice(plain_ops), 'verbose': False})
    other_cats = [_gen_catalog_events(R, region, mags, 500 + cid, R.randint(0, 4), start_ms, end_ms)
                  for cid in range(R.randint(1, 5))]
    prelude = None
    if cfg['source'] == 'file' and R.random() < 0.3:
        # an earlier forecast that lived at the same path (other content): process-level caches keyed by path
        pj = R.randint(1, 6)
        prelude = {'cats': [_gen_catalog_events(R, region, mags, cid, R.randint(0, 4), start_ms, end_ms) for cid in range(pj)]}
    probe = None
    if R.random() < 0.15:
        probe = {'kind': R.choice(('break', 'loader_ioerror')), 'at': R.randint(0, max(0, J - 1))}
    return {'engine': 'fcsim', 'region': region, 'mags': mags, 'cats': cats, 'config': cfg,
            'start_ms': start_ms, 'end_ms': end_ms, 'obs': obs, 'ops': ops, 'probe': probe, 'prelude': prelude,
            'other_cats': other_cats,
            'tz': R.choice(TZ_CHOICES), 'clock_us': R.randint(0, 4 * 10 ** 15)}


def big_region(region):
    """the full rectangle of the lattice's bounding box, extended by one column to the left and one row below"""
    dh = region['dh']
    b = region['bbox']
    nx = int(round((b[2] - b[0]) / dh)) + 1
    ny = int(round((b[3] - b[1]) / dh)) + 1
    x0, y0 = gen.dec(b[0] - dh), gen.dec(b[1] - dh)
    return {'kind': 'cart', 'dh': dh, 'holes': [], 'bbox': [x0, y0, b[2], b[3]],
            'origins': [[gen.dec(x0 + i * dh), gen.dec(y0 + j * dh)] for i in range(nx) for j in range(ny)]}


def _keeps(ev, cfg, start_ms, end_ms, mags):
    return ev[5] >= mags['edges'][0] and start_ms <= ev[1] < end_ms


def _inside(ev, region):
    if region['kind'] != 'cart':
        return True
    dh = region['dh']
    mask = region.get('mask')
    for i, o in enumerate(region['origins']):
        if o[0] <= ev[3] < o[0] + dh and o[1] <= ev[2] < o[1] + dh:
            return not mask or mask[i] == 1
    return False


# --------------------------------------------------------------------------- model side

def model_filter(cats, cfg, region, start_ms=None, end_ms=None):
    """What the configured filters keep (literal semantics of 'attr op value')."""
    import operator
    ops = {'>=': operator.ge, '<': operator.lt, '>': operator.gt, '<=': operator.le, '==': operator.eq}
    col = {'origin_time': 1, 'latitude': 2, 'longitude': 3, 'depth': 4, 'magnitude': 5}
    out = []
    for evs in cats:
        keep = []
        for ev in evs:
            ok = True
            if cfg['apply_filters']:
                for st in cfg['filters']:
                    name, op, val = st.split(' ')
                    if not ops[op](float(ev[col[name]]), float(val)):
                        ok = False
                if cfg['filter_spatial'] and not _inside(ev, region):
                    ok = False
            if ok:
                keep.append(ev)
        out.append(keep)
    return out


def cell_of(ev, region):
    if region['kind'] == 'cart':
        dh = region['dh']
        for i, o in enumerate(region['origins']):
            if o[0] <= ev[3] < o[0] + dh and o[1] <= ev[2] < o[1] + dh:
                return i
        return None
    for i, qk in enumerate(region['quadkeys']):
        b = gen.quadkey_bounds(qk)
        if b[0] <= ev[3] < b[2] and b[1] <= ev[2] < b[3]:
            return i
    return None


def mbin_of(mag, mags):
    e = mags['edges']
    if mag < e[0]:
        return None
    k = 0
    while k + 1 < len(e) and mag >= e[k + 1]:
        k += 1
    return k


def grid_counts(evs, region, mags):
    a = numpy.zeros((gen.n_cells(region), len(mags['edges'])))
    for ev in evs:
        a[cell_of(ev, region), mbin_of(ev[5], mags)] += 1
    return a


# --------------------------------------------------------------------------- execution

class _CountingLoader:
    """Delivery seam: transparent wrapper around the real loader that observes completed passes."""

    def __init__(self, kind, stats):
        self.kind = kind
        self.stats = stats

    def __call__(self, filename=None, **kwargs):
        from csep.core.catalogs import CSEPCatalog
        kwargs.pop('format', None)
        inner = CSEPCatalog.load_ascii_catalogs(filename=filename, **kwargs)
        stats = self.stats
        stats['opened'] += 1
        if self.kind == 'gen':
            def g():
                for c in inner:
                    stats['yielded'] += 1
                    yield c
                stats['completed'] += 1
            return g()

        class It:
            def __iter__(self):
                return self

            def __next__(self):
                try:
                    c = next(inner)
                except StopIteration:
                    stats['completed'] += 1
                    raise
                stats['yielded'] += 1
                return c
        return It()


class FcWorld:
    """Objects of one run: region, file, forecast factory."""

    def __init__(self, scn, store, fname='simfc'):
        self.scn = scn
        self.store = store
        self.cfg = scn['config']
        self.J = len(scn['cats'])
        self.path = None
        if self.cfg['source'] == 'file':
            self.path = store.path('%s_2010-01-01T00-00-00-000000.csv' % fname)
            if scn.get('prelude') and fname == 'simfc':
                self.run_prelude(scn['prelude'])
            build.write_forecast_csv(self.path, scn['cats'], self.cfg['encoding'])

    def run_prelude(self, prelude):
        """another forecast used earlier at the same path; whatever it leaves behind in the process must not matter"""
        from csep.core import catalog_evaluations as ce
        build.write_forecast_csv(self.path, prelude['cats'], self.cfg['encoding'])
        saved = self.scn
        for first in ('counts', 'iterate', 'rates'):
            try:
                fc = self.new_forecast()
                if first == 'counts':
                    fc.get_event_counts(verbose=False)
                elif first == 'rates':
                    fc.get_expected_rates(verbose=False)
                for _ in fc:
                    pass
                fc.get_event_counts(verbose=False)
                fc.get_expected_rates(verbose=False)
                ce.number_test(fc, build.make_catalog([], region=fc.region, name='obs'), verbose=False)
            except Exception:
                pass

    def region(self):
        # one region object for all forecasts of the run (what a user does: build the region once, load many
        # forecasts with it), or a new equal object per forecast
        if self.cfg.get('share_region_object'):
            if getattr(self, '_shared_region', None) is None:
                self._shared_region = build.make_region(self.scn['region'], self.scn['mags'])
            return self._shared_region
        return build.make_region(self.scn['region'], self.scn['mags'])

    def new_forecast(self, filtered=True, stats=None):
        """A brand-new forecast object from the literal inputs (no history)."""
        import csep
        from csep.core.forecasts import CatalogForecast
        scn, cfg = self.scn, self.cfg
        region = self.region()
        stats = stats if stats is not None else {'opened': 0, 'yielded': 0, 'completed': 0}
        kw = dict(name='simfc', region=region, start_time=build.utc(scn['start_ms']),
                  end_time=build.utc(scn['end_ms']))
        use_filters = filtered and cfg['apply_filters']
        if use_filters:
            kw['apply_filters'] = True
            kw['filter_spatial'] = cfg['filter_spatial']
            if cfg['filters_where'] == 'ctor':
                kw['filters'] = list(cfg['filters'])
        if cfg['source'] == 'list':
            lr = cfg.get('list_region')
            if not lr:
                creg = None
            elif lr is True:
                creg = region
            elif lr == 'permuted':
                import random as _random
                rl = dict(scn['region'])
                key = 'origins' if rl['kind'] == 'cart' else 'quadkeys'
                rl[key] = list(rl[key])
                _random.Random(cfg.get('list_region_perm_seed', 0)).shuffle(rl[key])
                creg = build.make_region(rl, scn['mags'])
            elif lr == 'other_mags':
                # same cells, other magnitude bins (the catalogs were gridded for something else before)
                e = scn['mags']['edges']
                e2 = e[::2] if len(e) >= 3 else list(e) + [gen.dec(e[-1] + scn['mags']['dm'], 6)]
                creg = build.make_region(scn['region'], dict(scn['mags'], edges=e2))
            else:
                creg = build.make_region(big_region(scn['region']), scn['mags'])
            ckw = {}
            if cfg.get('cat_filters_attr') and use_filters and cfg['filters']:
                ckw['filters'] = list(cfg['filters'])
            cats = [build.make_catalog(evs, region=creg, catalog_id=i, name='simfc', **ckw)
                    for i, evs in enumerate(scn['cats'])]
            if cfg.get('warm_cats') and creg is not None:
                # the catalogs were used before they were handed to the forecast (gridded on their own region)
                for c_ in cats:
                    for f_ in (c_.spatial_counts, c_.magnitude_counts, c_.spatial_magnitude_counts, c_.get_spatial_idx):
                        try:
                            f_()
                        except Exception:
                            pass
            fc = CatalogForecast(catalogs=cats, n_cat=self.J if cfg['n_cat_given'] else None, **kw)
        else:
            if cfg['n_cat_given']:
                kw['n_cat'] = self.J
            fc = csep.load_catalog_forecast(self.path, catalog_loader=_CountingLoader(cfg['wrapper'], stats),
                                            store=cfg['store'], **kw)
        if use_filters and cfg['filters_where'] == 'assign':
            fc.filters = list(cfg['filters'])
        fc._sim_stats = stats
        return fc

    def obs_catalog(self, i, region):
        if self.cfg.get('obs_history') and self.scn['region']['kind'] == 'cart' and region is not None:
            # the observed catalog was gridded on another region before (same cells listed in another order), then
            # re-bound to the forecast's region
            import random as _random
            rl = dict(self.scn['region'])
            rl['origins'] = list(rl['origins'])
            _random.Random(self.cfg['obs_history']).shuffle(rl['origins'])
            c = build.make_catalog(self.scn['obs'][i]['events'], region=build.make_region(rl, self.scn['mags']), name='obs%d' % i)
            for f_ in (c.spatial_counts, c.magnitude_counts, c.spatial_magnitude_counts, c.get_spatial_idx):
                try:
                    f_()
                except Exception:
                    pass
            c.region = region
            return c
        return build.make_catalog(self.scn['obs'][i]['events'], region=region, name='obs%d' % i)


def full_pass(fc, J, ctx=None):
    """Manual next() loop under a step budget (liveness f). Returns list of (id, fingerprint, n)."""
    budget = 2 * J + 4
    out = []
    it = iter(fc)
    steps = 0
    while True:
        steps += 1
        if steps > budget:
            raise SimBudgetExceeded('iterator-steps', steps)
        try:
            c = next(it)
        except StopIteration:
            break
        out.append((c.catalog_id, build.cat_fingerprint(c), c.event_count))
    return out


def abstract_state(fc, J):
    cats = getattr(fc, 'catalogs', None)
    kind = 'list' if isinstance(cats, list) else 'stream'
    ec = getattr(fc, '_event_counts', None)
    n_ec = len(ec) if ec is not None else -1
    return (kind, int(getattr(fc, '_idx', -1)), getattr(fc, 'n_cat', None) is not None,
            bool(getattr(fc, 'apply_filters', False)),
            (n_ec // J if J and n_ec >= 0 else -1) if n_ec < 4 * J else 4,
            getattr(fc, 'expected_rates', None) is not None)


def result_view(res):
    """Observable content of an evaluation result (or None)."""
    if res is None:
        return None
    td = res.test_distribution
    try:
        td = numpy.asarray(td, dtype=float).tolist()
    except (TypeError, ValueError):
        td = list(td)
    q = res.quantile
    if isinstance(q, (tuple, list)):
        q = tuple(q)
    return {'cls': type(res).__name__, 'name': res.name, 'status': res.status,
            'obs': res.observed_statistic, 'quantile': q, 'dist': td,
            'sim_name': res.sim_name, 'obs_name': res.obs_name, 'min_mw': res.min_mw}


def run_test(name, fc, obs, seed, verbose=False):
    from csep.core import catalog_evaluations as ce
    if name == 'number':
        return ce.number_test(fc, obs, verbose=verbose)
    if name == 'spatial':
        return ce.spatial_test(fc, obs, verbose=verbose)
    if name == 'magnitude':
        return ce.magnitude_test(fc, obs, verbose=verbose)
    if name == 'pseudolikelihood':
        return ce.pseudolikelihood_test(fc, obs, verbose=verbose)
    if name == 'resampled_magnitude':
        return ce.resampled_magnitude_test(fc, obs, verbose=verbose, seed=seed)
    if name == 'MLL_magnitude':
        return ce.MLL_magnitude_test(fc, obs, full_calculation=False, verbose=verbose, seed=seed)
    if name == 'MLL_magnitude_full':
        return ce.MLL_magnitude_test(fc, obs, full_calculation=True, verbose=verbose, seed=seed)
    raise ValueError(name)


def call(f, *a, **k):
    """-> ('ok', value) | ('exc', 'TypeName', message) | ('budget', what)"""
    try:
        return ('ok', f(*a, **k))
    except SimBudgetExceeded as e:
        return ('budget', e.what, str(e))
    except Exception as e:  # library exception: judged by the oracles
        return ('exc', type(e).__name__, str(e)[:200])


def execute(scn, ctx, collect_results=None):
    """collect_results: optional list that receives (op index, test name, result object)."""
    store = SimStore()
    rng = SimRandom(initial_seed=scn.get('clock_us', 0) % (2 ** 31))
    clock = SimClock(scn.get('clock_us', 0))
    set_tz(scn.get('tz', 'UTC'))
    store.install()
    clock.install()
    rng.install()
    try:
        _execute(scn, ctx, store, rng, clock, collect_results)
    finally:
        rng.remove()
        clock.remove()
        store.remove()
        store.cleanup()
        set_tz('UTC')
    ctx.sim_time_ms += max(0, (clock.max_us - clock.min_us) // 1000)
    if store.order_errors:
        ctx.count('store_order_errors', len(store.order_errors))


def _execute(scn, ctx, store, rng, clock, collect_results):
    w = FcWorld(scn, store)
    J = w.J
    cfg = w.cfg
    clock.auto_step_us = 1500
    ctx.count('cfg:%s%s' % (cfg['source'], '' if cfg['source'] == 'list' else
                            ('+store' if cfg['store'] else '+nostore')))
    ctx.count('cfg:filters_' + ('on' if cfg['apply_filters'] else 'off'))
    if cfg['filter_spatial']:
        ctx.count('cfg:filter_spatial')
    if scn['region']['kind'] == 'quad':
        ctx.count('cfg:quadtree')

    # ---- a fresh, unfiltered read before anything else happened in this process chunk -----------------------
    raw_first = None
    if cfg['source'] == 'file' and ctx.wants('C13'):
        rr0 = call(lambda: [(c.catalog_id, build.cat_fingerprint(c)) for c in w.new_forecast(filtered=False)])
        if rr0[0] == 'ok':
            raw_first = rr0[1]

    # ---- canonical pass of a twin without history -----------------------------------------
    twin = w.new_forecast()
    r = call(full_pass, twin, J)
    if r[0] != 'ok':
        if r[0] == 'budget':
            ctx.violate('C13', 'liveness', 'fresh-pass:' + r[1], {'J': J})
        else:
            # a fresh forecast that cannot be iterated once: configuration outside the property
            # (e.g. documented precondition) unless it is the plain list/no-n_cat case
            ctx.count('fresh_pass_exception:' + r[1])
            ctx.log('fresh_pass_exc', r[1])
            if cfg['source'] == 'list' and not cfg['n_cat_given']:
                ctx.violate('C13', 'iterable', 'list-without-n_cat:' + r[1], {'msg': r[2]})
            else:
                ctx.violate('C13', 'iterable', 'fresh-pass-exception:' + r[1], {'msg': r[2]})
        return
    canon = r[1]
    canon_ids = [c[0] for c in canon]
    canon_fp = [c[1] for c in canon]
    canon_counts = [c[2] for c in canon]
    Jc = len(canon)
    ctx.log('canon', canon_ids, canon_counts)
    if any(n == 0 for n in canon_counts):
        ctx.count('rare:empty_catalog_in_pass')
    if canon_counts and canon_counts[0] == 0:
        ctx.count('rare:empty_first_catalog')
    if canon_counts and canon_counts[-1] == 0:
        ctx.count('rare:empty_last_catalog')

    # ---- (b) filters applied exactly once: compare with manually filtered unfiltered twin ---
    if cfg['apply_filters'] and ctx.wants('C13'):
        raw = w.new_forecast(filtered=False)
        rr = call(lambda: [c for c in raw])
        if rr[0] == 'ok':
            region = w.region()
            manual = []
            for c in rr[1]:
                c2 = c
                if cfg['filters']:
                    c2 = c2.filter(list(cfg['filters']), in_place=False)
                if cfg['filter_spatial']:
                    c2 = c2.filter_spatial(region, in_place=False)
                manual.append((c2.catalog_id, build.cat_fingerprint(c2), c2.event_count))
            if [m[:2] for m in manual] != [c[:2] for c in canon]:
                kept = [m[2] for m in manual]
                sig = 'filters-not-applied' if canon_counts == [c.event_count for c in rr[1]] and \
                    kept != canon_counts else 'filtered-pass-differs'
                ctx.violate('C13', 'filters_once', sig, {'canon_counts': canon_counts, 'manual_counts': kept})
            if [m[2] for m in manual] != [c.event_count for c in rr[1]]:
                ctx.count('rare:filters_removed_events')

    # ---- library gridding of the canonical catalogs (for oracle d) -------------------------
    def library_rates():
        region = w.region()
        t = w.new_forecast()
        acc = None
        n = 0
        for c in t:
            c.region = region
            g = numpy.array(c.spatial_magnitude_counts())
            acc = g if acc is None else acc + g
            n += 1
        return acc / n
    rr = call(library_rates)
    lib_rates = rr[1] if rr[0] == 'ok' else None
    if lib_rates is None:
        ctx.count('library_rates_unavailable:' + rr[1])

    # ---- C10 reference model -----------------------------------------------------------------
    kept_cats = model_filter(scn['cats'], cfg, scn['region'])
    model = None
    if ctx.wants('C10') or ctx.wants('C20'):
        if cfg.get('low_mag_unfiltered') or cfg.get('outside_unfiltered'):
            # nothing can be gridded in this configuration; only the number test is defined (sizes, no bins)
            model = models.CatalogForecastModel([[[float(len(evs))]] for evs in kept_cats])
            model.sizes_only = True
        else:
            model = models.CatalogForecastModel([grid_counts(evs, scn['region'], scn['mags']) for evs in kept_cats])

    # ---- subject and its history ---------------------------------------------------------------
    stats = {'opened': 0, 'yielded': 0, 'completed': 0}
    fc = w.new_forecast(stats=stats)
    observed_complete = 0          # completed passes observed (delivery seam or ITER driver)
    first_rates = None
    first_spatial = None
    first_mags = None
    prev_state = abstract_state(fc, J)
    ctx.state(prev_state)
    run_results = []
    held = []           # (op index, test, result object, rendering when returned): results the caller keeps
    other_fc = [None]
    for oi, op in enumerate(scn['ops']):
        kind = op['op']
        label = kind if kind != 'TEST' else 'TEST:' + op['name']
        ctx.count('op:' + label)
        completed_before = stats['completed']
        if kind == 'ITER':
            r = call(full_pass, fc, J)
            if r[0] == 'budget':
                ctx.violate('C13', 'liveness', 'pass-does-not-end', {'op': oi, 'J': J})
                return
            if r[0] == 'exc':
                ctx.violate('C13', 'exception', 'ITER:' + r[1], {'op': oi, 'msg': r[2]})
                return
            got = r[1]
            observed_complete += 1
            ctx.log('iter', oi, [g[0] for g in got], [g[2] for g in got])
            if [g[:2] for g in got] != [c[:2] for c in canon]:
                if len(got) != Jc:
                    sig = 'pass-length:%s' % ('short' if len(got) < Jc else 'long')
                elif [g[0] for g in got] != canon_ids:
                    sig = 'pass-order-or-ids'
                else:
                    sig = 'pass-content'
                ctx.violate('C13', 'stable_pass', sig,
                            {'op': oi, 'got_ids': [g[0] for g in got], 'got_counts': [g[2] for g in got],
                             'canon_ids': canon_ids, 'canon_counts': canon_counts})
        elif kind == 'COUNTS':
            r = call(fc.get_event_counts, verbose=bool(op.get('verbose')))
            if r[0] != 'ok':
                ctx.violate('C13', 'exception', 'COUNTS:' + r[1], {'op': oi, 'msg': r[2]})
                return
            got = numpy.asarray(r[1]).tolist()
            ctx.log('counts', oi, got)
            if got != canon_counts:
                if len(got) != Jc:
                    m = len(got) // Jc if Jc and len(got) % Jc == 0 else None
                    sig = 'len=k*J' if m and m > 1 else ('len-short' if len(got) < Jc else 'len-other')
                else:
                    sig = 'values'
                ctx.violate('C13', 'event_counts', sig, {'op': oi, 'got': got, 'want': canon_counts})
        elif kind == 'NCAT':
            n = getattr(fc, 'n_cat', None)
            ctx.log('ncat', oi, n)
            known = cfg['n_cat_given'] or observed_complete > 0 or stats['completed'] > 0
            if known and n != Jc:
                ctx.violate('C13', 'n_cat', 'wrong-after-pass' if not cfg['n_cat_given'] else 'wrong',
                            {'op': oi, 'n_cat': n, 'J': Jc})
            elif not known and n is not None and n != Jc:
                ctx.violate('C13', 'n_cat', 'wrong-before-pass', {'op': oi, 'n_cat': n, 'J': Jc})
        elif kind in ('RATES', 'SPATIAL', 'MAGS'):
            if kind == 'RATES':
                r = call(fc.get_expected_rates, verbose=bool(op.get('verbose')))
            elif kind == 'SPATIAL':
                r = call(fc.spatial_counts)
            else:
                r = call(fc.magnitude_counts)
            if r[0] != 'ok':
                if lib_rates is None:
                    # gridding is impossible for this configuration (twin fails too); the aborted pass ends the history
                    ctx.count('rates_exception_also_on_twin')
                    return
                ctx.violate('C13', 'exception', kind + ':' + r[1], {'op': oi, 'msg': r[2]})
                return
            val = r[1]
            if kind == 'RATES':
                if val is None or not hasattr(val, 'data'):
                    ctx.violate('C13', 'expected_rates', 'returns-None' if val is None else 'not-a-forecast',
                                {'op': oi, 'n_request': ctx.counters.get('op:RATES', 0)})
                    continue
                data = numpy.array(val.data)
                ctx.log('rates', oi, data)
                if first_rates is None:
                    first_rates = data
                elif hexf(first_rates) != hexf(data):
                    ctx.violate('C13', 'expected_rates', 'changes-between-requests', {'op': oi})
                if lib_rates is not None and (data.shape != lib_rates.shape or
                                              not numpy.allclose(data, lib_rates, rtol=1e-12, atol=0)):
                    ctx.violate('C13', 'expected_rates', 'not-mean-of-counts',
                                {'op': oi, 'got_sum': float(data.sum()), 'want_sum': float(lib_rates.sum())})
            else:
                data = numpy.array(val)
                ctx.log(kind.lower(), oi, data)
                want = None if lib_rates is None else lib_rates.sum(axis=1 if kind == 'SPATIAL' else 0)
                prev = first_spatial if kind == 'SPATIAL' else first_mags
                if prev is None:
                    if kind == 'SPATIAL':
                        first_spatial = data
                    else:
                        first_mags = data
                elif hexf(prev) != hexf(data):
                    ctx.violate('C13', 'marginals', kind + ':changes-between-requests', {'op': oi})
                if want is not None and (data.shape != want.shape or
                                         not numpy.allclose(data, want, rtol=1e-12, atol=1e-300)):
                    ctx.violate('C13', 'marginals', kind + ':not-marginal-of-mean', {'op': oi})
        elif kind == 'OTHER_FC':
            if scn.get('other_cats') and not cfg.get('low_mag_unfiltered') and not cfg.get('outside_unfiltered'):
                from csep.core.forecasts import CatalogForecast
                from csep.core import catalog_evaluations as ce_
                if other_fc[0] is None:
                    oreg = w.region()
                    ocats = [build.make_catalog(evs, region=oreg, catalog_id=i, name='other')
                             for i, evs in enumerate(scn['other_cats'])]
                    other_fc[0] = CatalogForecast(catalogs=ocats, n_cat=len(ocats), region=oreg, name='other',
                                                  start_time=build.utc(scn['start_ms']), end_time=build.utc(scn['end_ms']))
                o = other_fc[0]
                ctx.count('fire:other_forecast_' + op['what'])
                if op['what'] == 'rates':
                    call(o.get_expected_rates, verbose=False)
                elif op['what'] == 'iterate':
                    call(lambda: [c for c in o])
                elif op['what'] == 'counts':
                    call(o.get_event_counts, verbose=False)
                else:
                    call(ce_.spatial_test, o, w.obs_catalog(0, o.region), verbose=False)
        elif kind == 'CALIBRATION':
            if ctx.wants('C10') and run_results:
                check_calibration(ctx, run_results, op, oi, collect_results)
        elif kind == 'TEST':
            name = op['name']
            region_s = fc.region
            obs_s = w.obs_catalog(op['obs'], region_s)
            rng.seed(op['rng_state'])
            rng.mark()
            rs = call(run_test, name, fc, obs_s, op['seed'], bool(op.get('verbose')))
            calls_s = list(rng.calls)
            # twin without history
            t = w.new_forecast()
            obs_t = w.obs_catalog(op['obs'], t.region)
            rng.seed(op['rng_state'])
            rng.mark()
            rt = call(run_test, name, t, obs_t, op['seed'])
            if rs[0] == 'budget' or rt[0] == 'budget':
                ctx.violate('C13', 'liveness', 'TEST:' + name, {'op': oi})
                return
            if rs[0] == 'exc' and rt[0] == 'exc':
                # a configuration outside the property (the fresh twin fails the same way); the
                # exception may have aborted a pass half-way, and C13 speaks of complete passes
                # only, so the history ends here
                ctx.count('precond:test_raises_on_twin_too:' + name + ':' + rs[1])
                ctx.log('test_exc_both', oi, name, rs[1])
                return
            if rs[0] == 'exc':
                ctx.violate('C13', 'exception', 'TEST:%s:%s' % (name, rs[1]), {'op': oi, 'msg': rs[2]})
                return
            if rt[0] == 'exc':
                ctx.count('twin_only_exception:' + name + ':' + rt[1])
                continue
            vs = result_view(rs[1])
            vt = result_view(rt[1])
            ctx.log('test', oi, name, vs if vs is None else [vs['status'], vs['obs'], vs['quantile'], vs['dist']])
            if collect_results is not None and rs[1] is not None:
                collect_results.append((oi, name, rs[1]))
            if rs[1] is not None:
                run_results.append(rs[1])
                held.append((oi, name, rs[1], hexf([vs['status'], vs['obs'], vs['quantile'], vs['dist']])))
            if (vs is None) != (vt is None):
                ctx.violate('C13', 'evaluation_vs_twin', '%s:none-vs-result' % name, {'op': oi})
            elif vs is not None:
                for fld in ('status', 'obs', 'quantile', 'dist'):
                    if hexf(vs[fld]) != hexf(vt[fld]):
                        ctx.violate('C13', 'evaluation_vs_twin', '%s:%s' % (name, fld),
                                    {'op': oi, 'subject': vs[fld], 'twin': vt[fld]})
                        break
            if model is not None and ctx.wants('C10'):
                check_c10(ctx, scn, model, name, op, vs, calls_s, oi)
        # ---- invariants after every op --------------------------------------------------------
        for oi0, n0, res0, ren0 in held:
            v0 = result_view(res0)
            if hexf([v0['status'], v0['obs'], v0['quantile'], v0['dist']]) != ren0:
                ctx.violate('C10' if ctx.focus == 'C10' else 'C13', 'result_stability',
                            '%s:result-held-by-caller-changed-by-later-call' % n0, {'op': oi0, 'changed_after_op': oi})
                return
        if stats['completed'] > completed_before:
            observed_complete += stats['completed'] - completed_before
            ctx.count('rare:streamed_pass_completed')
        if observed_complete > 0 and ctx.wants('C13'):
            n = getattr(fc, 'n_cat', None)
            if n != Jc:
                ctx.violate('C13', 'n_cat', 'wrong-after-pass', {'op': oi, 'n_cat': n, 'J': Jc})
            ec = getattr(fc, '_event_counts', None)
            if ec is not None and len(ec) not in (0, Jc) and kind != 'COUNTS':
                # internal accumulator only observed through get_event_counts(); checked there
                ctx.count('rare:accumulator_not_J')
        st = abstract_state(fc, J)
        ctx.state(st)
        ctx.transition(prev_state, label, st)
        prev_state = st
    if stats['opened'] > 1:
        ctx.count('rare:loader_reopened')
    if raw_first is not None and not ctx.violations:
        # "re-read from file": a brand-new unfiltered forecast on the same file must yield what the very first read
        # yielded, whatever other forecast objects (filtering in place) did to their catalogs in the meantime
        rr1 = call(lambda: [(c.catalog_id, build.cat_fingerprint(c)) for c in w.new_forecast(filtered=False)])
        if rr1[0] == 'ok':
            ctx.count('fresh_read_rechecked')
            if rr1[1] != raw_first:
                ctx.violate('C13', 'stable_pass', 'fresh-read-of-the-file-differs-after-other-forecasts-used-it',
                            {'first_counts': [len(x[1][1]) for x in raw_first][:8], 'later_counts': [len(x[1][1]) for x in rr1[1]][:8]})
    if scn.get('probe') and not ctx.violations:
        run_probe(scn, ctx, w, canon)


def run_probe(scn, ctx, w, canon):
    """Beyond-property faults (no listed property covers them): outcomes are counted, never judged."""
    pr = scn['probe']
    J = w.J
    fc = w.new_forecast()
    if pr['kind'] == 'break':
        ctx.count('fire:probe_abandoned_iteration')
        k = 0
        try:
            for c in fc:
                k += 1
                if k > pr['at']:
                    break
            nxt = full_pass(fc, J)
        except SimBudgetExceeded:
            ctx.count('probe:after_break:next_pass_never_ends')
            return
        except Exception as e:
            ctx.count('probe:after_break:exception:' + type(e).__name__)
            return
        if [x[:2] for x in nxt] == [x[:2] for x in canon]:
            ctx.count('probe:after_break:next_pass_complete')
        elif len(nxt) < len(canon):
            ctx.count('probe:after_break:next_pass_is_the_remainder')
        else:
            ctx.count('probe:after_break:next_pass_other')
    elif pr['kind'] == 'loader_ioerror' and w.cfg['source'] == 'file':
        ctx.count('fire:probe_loader_ioerror')
        inner_loader = fc.loader
        at = pr['at']

        def failing(**kw):
            it = inner_loader(**kw)
            n = 0
            for c in it:
                if n == at:
                    raise OSError(5, 'simulated: Input/output error while streaming the forecast')
                n += 1
                yield c
        fc.loader = failing
        fc._load_catalogs()
        try:
            full_pass(fc, J)
            ctx.count('probe:loader_ioerror:swallowed')
            return
        except OSError:
            ctx.count('probe:loader_ioerror:propagates')
        except Exception as e:
            ctx.count('probe:loader_ioerror:other:' + type(e).__name__)
            return
        # after the fault stops: does the forecast recover on the next pass?
        fc.loader = inner_loader
        try:
            nxt = full_pass(fc, J)
        except SimBudgetExceeded:
            ctx.count('probe:after_ioerror:next_pass_never_ends')
            return
        except Exception as e:
            ctx.count('probe:after_ioerror:exception:' + type(e).__name__)
            return
        if [x[:2] for x in nxt] == [x[:2] for x in canon]:
            ctx.count('probe:after_ioerror:recovers_with_complete_pass')
        else:
            ctx.count('probe:after_ioerror:next_pass_incomplete')


def check_calibration(ctx, results, op, oi, collect_results):
    """calibration_test = one-sample KS distance of the valid results' quantiles from the uniform law"""
    from csep.core import catalog_evaluations as ce
    idx = 0 if op['delta_1'] else 1
    valid = [r for r in results if r.status != 'not-valid']
    qs = [r.quantile[idx] for r in valid]
    if not qs or any(q is None for q in qs):
        return
    r = call(ce.calibration_test, list(results), delta_1=op['delta_1'])
    if r[0] != 'ok':
        ctx.violate('C10', 'calibration', 'exception:%s' % r[1], {'op': oi, 'msg': r[2], 'n': len(qs)})
        return
    res = r[1]
    ctx.count('c10_compared:calibration')
    if collect_results is not None:
        collect_results.append((oi, 'calibration', res))
    xs = sorted(float(q) for q in qs)
    n = len(xs)
    d = max(max((i + 1) / n - x, x - i / n) for i, x in enumerate(xs))
    if not models.close_seq([float(x) for x in res.test_distribution], [float(q) for q in qs], 1e-12, 1e-12):
        ctx.violate('C10', 'calibration', 'quantiles-used', {'op': oi, 'got': list(res.test_distribution), 'want': qs})
    elif not models.close(res.observed_statistic, d, 1e-9, 1e-12):
        ctx.violate('C10', 'calibration', 'ks-distance', {'op': oi, 'got': res.observed_statistic, 'want': d})
    elif not (0.0 <= float(res.quantile) <= 1.0):
        ctx.violate('C10', 'calibration', 'p-value-out-of-range', {'op': oi, 'got': res.quantile})


def _hist_of_resample(values, mags):
    h = numpy.zeros(len(mags['edges']))
    for v in numpy.asarray(values, dtype=float).ravel().tolist():
        k = mbin_of(v, mags)
        h[k] += 1
    return h


def check_c10(ctx, scn, model, name, op, vs, calls, oi):
    """Library result vs the documented statistic on the literal catalogs + recorded draws."""
    if getattr(model, 'sizes_only', False):
        if name != 'number':
            return
        obs_counts = numpy.array([[float(len(scn['obs'][op['obs']]['events']))]])
    else:
        obs_counts = grid_counts(scn['obs'][op['obs']]['events'], scn['region'], scn['mags'])
    n_obs = float(obs_counts.sum())
    if model.n_union == 0:
        ctx.count('precond:NU0')
        return
    if name == 'number':
        want = model.number(obs_counts)
    elif name == 'spatial':
        want = model.spatial(obs_counts)
    elif name == 'magnitude':
        want = model.magnitude(obs_counts)
    elif name == 'pseudolikelihood':
        want = model.pseudolikelihood(obs_counts)
    else:
        choices = [c for c in calls if c[0] == 'choice']
        if n_obs == 0:
            hists = []
        else:
            if len(choices) != model.J:
                if not calls:
                    ctx.count('unobserved_rng_stream')
                    return
                ctx.violate('C10', 'resampling', '%s:number-of-resamples' % name,
                            {'op': oi, 'choice_calls': len(choices), 'J': model.J})
                return
            for c in choices:
                if numpy.size(c[2]) != int(n_obs):
                    ctx.violate('C10', 'resampling', '%s:resample-size' % name,
                                {'op': oi, 'size': int(numpy.size(c[2])), 'n_obs': n_obs})
                    return
            for c in choices:
                # a resample is N_obs independent draws (with replacement) from the union catalog / its histogram
                if c[1] is not None and c[1][2] is not True:
                    ctx.violate('C10', 'resampling', '%s:resample-drawn-without-replacement' % name, {'op': oi})
                    return
                if name == 'MLL_magnitude_full' and c[1] is not None and len(c[1][0]) != int(model.n_union):
                    ctx.violate('C10', 'resampling', '%s:population-is-not-the-union-catalog' % name,
                                {'op': oi, 'population': len(c[1][0]), 'n_union': int(model.n_union)})
                    return
            hists = [_hist_of_resample(c[2], scn['mags']) for c in choices]
        want = model.resampled_magnitude(obs_counts, hists) if name == 'resampled_magnitude' \
            else model.mll(obs_counts, hists)
    ctx.count('c10_compared:' + name)
    if want is None:
        if vs is not None:
            ctx.violate('C10', 'undefined_signalled', '%s:result-for-undefined' % name,
                        {'op': oi, 'status': vs['status'], 'quantile': vs['quantile']})
        else:
            ctx.count('rare:no_result_signalled')
        return
    if vs is None:
        ctx.violate('C10', 'statistic', '%s:no-result' % name, {'op': oi, 'want_status': want['status']})
        return
    if want['status'] != vs['status']:
        ctx.violate('C10', 'status', '%s:%s-instead-of-%s' % (name, vs['status'], want['status']),
                    {'op': oi, 'n_obs': n_obs})
        return
    if want['status'] != 'normal':
        ctx.count('rare:status_' + want['status'])
    if want['status'] == 'not-valid':
        q = vs['quantile']
        qs = q if isinstance(q, tuple) else (q,)
        if any(x is not None and 0 <= x <= 1 for x in qs):
            ctx.violate('C10', 'undefined_signalled', '%s:numeric-quantile-when-not-valid' % name,
                        {'op': oi, 'quantile': q})
        return
    if not models.close(vs['obs'], want['obs']):
        ctx.violate('C10', 'statistic', '%s:observed' % name, {'op': oi, 'got': vs['obs'], 'want': want['obs']})
        return
    if vs['obs'] is not None and numpy.isinf(vs['obs']):
        ctx.violate('C10', 'statistic', '%s:silent-infinite' % name, {'op': oi})
    if not models.close_seq(vs['dist'], want['dist']):
        sig = 'distribution-length' if len(vs['dist']) != len(want['dist']) else 'distribution'
        ctx.violate('C10', 'statistic', '%s:%s' % (name, sig), {'op': oi, 'got': vs['dist'], 'want': want['dist']})
        return
    # quantiles: C09 convention applied to the library's own returned numbers (ulp ties)
    if len(vs['dist']) > 0 and vs['obs'] is not None:
        ge, le = models.ecdf_ge_le(vs['dist'], vs['obs'])
        q = vs['quantile']
        if not (isinstance(q, tuple) and len(q) == 2 and models.close(q[0], ge, 1e-12, 1e-12)
                and models.close(q[1], le, 1e-12, 1e-12)):
            ctx.violate('C10', 'quantile', '%s:not-empirical-probabilities' % name,
                        {'op': oi, 'got': q, 'want': (ge, le)})
    elif len(vs['dist']) == 0:
        ctx.count('rare:empty_distribution')


# --------------------------------------------------------------------------- systematic sweep (C13)

SWEEP_OPS = ('ITER', 'COUNTS', 'RATES', 'SPATIAL', 'MAGS', 'T:number', 'T:spatial', 'T:magnitude',
             'T:pseudolikelihood', 'T:resampled_magnitude', 'T:MLL_magnitude')
SWEEP_CONFIGS = [(src, store, filt) for src, store in (('list', True), ('file', True), ('file', False))
                 for filt in ('off', 'ctor', 'assign+spatial')]


def _sweep_world(cfg_idx):
    src, store, filt = SWEEP_CONFIGS[cfg_idx]
    region = {'kind': 'cart', 'dh': 0.5, 'origins': [[10.0, 20.0], [10.0, 20.5], [10.5, 20.0], [10.5, 20.5]],
              'holes': [], 'bbox': [10.0, 20.0, 11.0, 21.0]}
    mags = {'dm': 0.5, 'edges': [4.0, 4.5, 5.0]}
    t0 = gen.T0_MS
    t1 = gen.T0_MS + 30 * 86400000
    cats = [[['c0e0', t0 + 5000, 20.25, 10.25, 5.5, 4.25], ['c0e1', t0 + 86400000, 20.75, 10.25, 10.0, 5.75]],
            [],
            [['c2e0', t0 + 7777123, 20.25, 10.25, 0.0, 4.75], ['c2e1', t0 + 9000000, 20.25, 10.75, 0.0, 4.25],
             ['c2e2', t0 + 9500000, 20.25, 10.25, 33.3, 4.25]]]
    cfg = {'source': src, 'store': store, 'wrapper': 'gen', 'n_cat_given': src == 'list', 'list_region': True,
           'apply_filters': filt != 'off', 'filters_where': 'ctor' if filt == 'ctor' else 'assign', 'filters': [],
           'filter_spatial': False, 'encoding': {'header': True, 'placeholders': False, 'fraction': True}}
    if filt != 'off':
        cfg['filters'] = ['magnitude >= 4.0', 'origin_time >= %d' % t0, 'origin_time < %d' % t1]
        cats[0].append(['c0low', t0 + 6000, 20.25, 10.25, 5.5, 3.5])
        cats[1].append(['c1late', t1 + 1000, 20.25, 10.25, 5.5, 4.25])        # catalog empty only after filtering
        if filt == 'assign+spatial':
            cfg['filter_spatial'] = True
            cats[2].insert(1, ['c2out', t0 + 8000000, 20.25, 9.25, 0.0, 4.25])
    obs = [{'kind': 'normal', 'events': [['o0', t0 + 1000, 20.25, 10.25, 5.5, 4.25], ['o1', t0 + 2000, 20.75, 10.75, 5.5, 5.25]]}]
    return {'engine': 'fcsim', 'region': region, 'mags': mags, 'cats': cats, 'config': cfg, 'start_ms': t0, 'end_ms': t1,
            'obs': obs, 'tz': 'UTC', 'clock_us': 0}


def systematic_count(tier, focus):
    if focus != 'C13':
        return 0
    L = 3 if tier == 'quick' else 4
    n = len(SWEEP_OPS)
    return len(SWEEP_CONFIGS) * sum(n ** k for k in range(1, L + 1))


def systematic_at(i, tier, focus):
    """the i-th scenario of the exhaustive sweep: every op sequence of length <= 3 (4 in thorough) x 9 configurations"""
    L = 3 if tier == 'quick' else 4
    n = len(SWEEP_OPS)
    per_cfg = sum(n ** k for k in range(1, L + 1))
    cfg_idx, j = divmod(i, per_cfg)
    length = 1
    while j >= n ** length:
        j -= n ** length
        length += 1
    seq = []
    for _ in range(length):
        j, d = divmod(j, n)
        seq.append(SWEEP_OPS[d])
    scn = _sweep_world(cfg_idx)
    ops = []
    for k, o in enumerate(seq):
        if o.startswith('T:'):
            ops.append({'op': 'TEST', 'name': o[2:], 'obs': 0, 'rng_state': 1000 + k, 'seed': 7})
        else:
            ops.append({'op': o})
    scn['ops'] = ops
    scn['sweep'] = True
    return scn

# --------------------------------------------------------------------------- shrinking

def shrink_candidates(scn):
    def variant(f):
        s = copy.deepcopy(scn)
        f(s)
        return s
    n_ops = len(scn['ops'])
    # drop ops (halves first, then singles)
    if n_ops > 1:
        half = n_ops // 2
        yield variant(lambda s: s.__setitem__('ops', s['ops'][:half]))
        yield variant(lambda s: s.__setitem__('ops', s['ops'][half:]))
    for i in range(n_ops):
        if n_ops > 1:
            yield variant(lambda s, i=i: s['ops'].pop(i))
    # drop catalogs from the end / the front
    J = len(scn['cats'])
    if J > 1:
        yield variant(lambda s: s.__setitem__('cats', s['cats'][:max(1, J // 2)]))
        for i in range(J):
            yield variant(lambda s, i=i: s['cats'].pop(i))
    # drop events
    for j, evs in enumerate(scn['cats']):
        for k in range(len(evs)):
            yield variant(lambda s, j=j, k=k: s['cats'][j].pop(k))
    # simplify configuration
    cfg = scn['config']
    if cfg['apply_filters']:
        yield variant(lambda s: (s['config'].__setitem__('apply_filters', False),
                                 s['config'].__setitem__('filters', []),
                                 s['config'].__setitem__('filter_spatial', False),
                                 s.__setitem__('cats', model_filter(s['cats'], cfg, s['region']))))
    if cfg['source'] == 'file' and cfg['wrapper'] == 'iter':
        yield variant(lambda s: s['config'].__setitem__('wrapper', 'gen'))
    if len(scn['obs']) > 1:
        used = sorted({o['obs'] for o in scn['ops'] if o['op'] == 'TEST'})
        if len(used) <= 1:
            keep = used[0] if used else 0

            def f(s):
                s['obs'] = [s['obs'][keep]]
                for o in s['ops']:
                    if o['op'] == 'TEST':
                        o['obs'] = 0
            yield variant(f)
    for i, o in enumerate(scn['obs']):
        for k in range(len(o['events'])):
            yield variant(lambda s, i=i, k=k: s['obs'][i]['events'].pop(k))
    if scn.get('tz') != 'UTC':
        yield variant(lambda s: s.__setitem__('tz', 'UTC'))
    if len(scn['mags']['edges']) > 2:
        def f(s):
            top = s['mags']['edges'][2]
            s['mags']['edges'] = s['mags']['edges'][:2]
        yield variant(f)


# --------------------------------------------------------------------------- engine object

class Engine:
    name = 'fcsim'

    generate = staticmethod(generate)
    execute = staticmethod(execute)
    shrink_candidates = staticmethod(shrink_candidates)
    systematic_count = staticmethod(systematic_count)
    systematic_at = staticmethod(systematic_at)

    @staticmethod
    def systematic_rule(tier, focus):
        L = 3 if tier == 'quick' else 4
        return ('exhaustive: every sequence of length 1..%d over the %d operations %s on each of %d configurations '
                '(in-memory list / streamed+cached / re-read file) x (filters off / given to the constructor / assigned '
                'afterwards + spatial filter) of one fixed 3-catalog forecast (one catalog empty, one empty only after '
                'filtering); these runs precede the seeded random ones and do not depend on VERIF_SEED' % (
                    L, len(SWEEP_OPS), list(SWEEP_OPS), len(SWEEP_CONFIGS)))

    @staticmethod
    def shape(scn):
        return {'cfg': scn['config'], 'J': len(scn['cats']), 'sizes': [len(c) for c in scn['cats']],
                'ops': [(o['op'], o.get('name')) for o in scn['ops']], 'region': scn['region']['kind'],
                'ncell': gen.n_cells(scn['region']), 'nm': len(scn['mags']['edges'])}

    @staticmethod
    def nontrivial(scn, ctx):
        # at least one op executed after state had been created (a pass or a request before it)
        return len(scn['ops']) >= 2 and any(len(c) for c in scn['cats'])

    @staticmethod
    def sample_view(scn):
        return {'config': scn['config'], 'J': len(scn['cats']), 'events_per_catalog': [len(c) for c in scn['cats']],
                'region': {'kind': scn['region']['kind'], 'cells': gen.n_cells(scn['region'])},
                'mag_edges': scn['mags']['edges'], 'tz': scn['tz'],
                'ops': [o['op'] if o['op'] != 'TEST' else 'TEST:%s(obs=%s,seed=%s)' % (
                    o['name'], scn['obs'][o['obs']]['kind'], o['seed']) for o in scn['ops']]}

    @staticmethod
    def rule(focus):
        return ('seeded random histories of {ITER, COUNTS, RATES, SPATIAL, MAGS, NCAT, each catalog-based test} '
                'on a CatalogForecast in a drawn configuration (in-memory list | streamed file with store on/off '
                'through a counting loader, filters on/off given to the constructor or assigned, spatial filter, '
                'n_cat given or not, file encoding variants, time zone; in-memory catalogs bound to no region, the forecast '
                'region, a larger one, the same cells in another order or with other magnitude bins; catalogs and observed '
                'catalogs that were gridded elsewhere before); every result the caller holds is re-read after each later op '
                '(result stability); a case is distinct by the digest of '
                '(configuration, catalog sizes, op sequence, region shape) and non-trivial when it has >= 2 ops and '
                'at least one synthetic event')

    @staticmethod
    def components():
        return {'real': ['csep.core.forecasts.CatalogForecast', 'csep.load_catalog_forecast',
                         'csep.core.catalogs.CSEPCatalog (+load_ascii_catalogs, filter, filter_spatial, gridding)',
                         'csep.core.catalog_evaluations.*', 'csep.core.regions', 'csep.utils.calc', 'csep.utils.stats',
                         'numpy', 'scipy', 'file system (tmpfs scratch dir)'],
                'stubbed': ['numpy.random global entry points (SimRandom, bit-identical pass-through)',
                            'wall clock (SimClock)', 'open() proxy in csep modules', 'stdout', 'TZ environment'],
                'not_run': ['plotting', 'web clients']}

    @staticmethod
    def assumptions(focus):
        a = ['events are placed strictly inside cells and magnitude bins (C01/C02 are not re-judged)',
             'a twin built from the same literal inputs and iterated once is the reference for "a single pass"',
             'configurations outside the property (N_U = 0, single magnitude edge for the resampling tests) are '
             'skipped and counted']
        if focus == 'C10':
            a.append('the reference model transcribes docs/getting_started/theory.rst and the two Serafini docstrings; '
                     'quantiles are judged on the library\'s own returned numbers')
        return a


ENGINE = Engine
