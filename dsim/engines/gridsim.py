"""Engine D2 `gridsim`: gridded-forecast files -> objects -> scale histories (property C11).

The simulator writes a CSEP gridded-forecast file for a generated lattice in a drawn delivery
order (cell order, lat/lon column order, flags, holes), loads it with the real loader and lets
1-2 actors sharing the object issue scale / scale_to_test_date / read / lookup / target-rate /
evaluation calls. Model: rows of the file + "last effective factor".
"""
import copy
import datetime
import os

import numpy

from .. import gen, build, models
from ..kernel import hexf
from ..seams import SimRandom, SimClock, SimStore, set_tz, TZ_CHOICES
from .fcsim import call, result_view

DAY_MS = 86400000
LOOKUP_FRACS = (0.05, 0.25, 0.5, 0.75, 0.95)


def generate(R, tier, focus):
    thorough = tier == 'thorough'
    quad = R.random() < 0.15
    if quad:
        region = gen.gen_quadtree(R)
        cells = [{'qk': qk} for qk in region['quadkeys']]
        dh = None
    else:
        dh = R.choice(gen.DH_CHOICES)
        nx, ny = R.randint(1, 4), R.randint(1, 4)
        if thorough and R.random() < 0.3:
            nx, ny = R.randint(1, 8), R.randint(1, 8)
        anchor_kind = R.choice(('any', 'any', 'near0', 'neg'))
        if anchor_kind == 'near0':
            ax, ay = R.randint(-3, 1) * dh, R.randint(-3, 1) * dh
        else:
            ax = R.randint(-40, 40) * dh * R.choice((1, 3, 7))
            ay = R.randint(-30, 30) * dh * R.choice((1, 3, 5))
        if R.random() < 0.25:
            # lattice not aligned with multiples of dh: two-decimal anchors such as 0.29 or -117.43
            ax += R.randint(1, 9) * 0.01
            ay += R.randint(1, 9) * 0.01
        ax = gen.dec(max(-170.0, min(160.0, ax)))
        ay = gen.dec(max(-70.0, min(60.0, ay)))
        cells = []
        for i in range(nx):
            for j in range(ny):
                lon0, lat0 = gen.dec(ax + i * dh), gen.dec(ay + j * dh)
                cells.append({'lon0': lon0, 'lon1': gen.dec(lon0 + dh), 'lat0': lat0, 'lat1': gen.dec(lat0 + dh),
                              'flag': 1})
        corners = {(gen.dec(ax), gen.dec(ay)), (gen.dec(ax + (nx - 1) * dh), gen.dec(ay + (ny - 1) * dh))}
        holes = []
        if len(cells) > 2 and R.random() < 0.4:
            cand = [c for c in cells if (c['lon0'], c['lat0']) not in corners]
            R.shuffle(cand)
            for c in cand[:R.randint(1, max(1, len(cells) // 3))]:
                cells.remove(c)
                holes.append([c['lon0'], c['lat0']])
        if len(cells) > 1 and R.random() < 0.4:
            for c in cells:
                if R.random() < 0.3:
                    c['flag'] = 0
            if not any(c['flag'] for c in cells):
                cells[0]['flag'] = 1
        region = {'kind': 'cart', 'dh': dh, 'holes': holes, 'nx': nx, 'ny': ny, 'ax': gen.dec(ax), 'ay': gen.dec(ay)}
        order = R.choice(('file', 'shuffled', 'lon-fast'))
        if order == 'shuffled':
            R.shuffle(cells)
        elif order == 'lon-fast':
            cells.sort(key=lambda c: (c['lat0'], c['lon0']))
    mags = gen.gen_mags(R, max_bins=5 if not thorough else 8)
    nm = len(mags['edges'])
    lo, hi = R.choice(((-9, 1), (-4, 0), (-1, 1)))
    for c in cells:
        c['rates'] = [0.0 if R.random() < 0.1 else float(repr(10 ** R.uniform(lo, hi))) for _ in range(nm)]
    start_ms = gen.T0_MS + R.choice((0, 31, 59, 200)) * DAY_MS
    dur_days = R.choice((1, 30, 365, 366, 1826))
    end_ms = start_ms + dur_days * DAY_MS
    swap = (not quad) and R.random() < 0.3
    # ops
    n_ops = R.randint(1, 12) if not thorough else R.randint(1, 30)
    ops = []
    n_cells = len(cells)
    for _ in range(n_ops):
        x = R.random()
        actor = R.randint(0, 1)
        if x < 0.22:
            v = R.choice((1, 1.0, 2, 0.5, 0.1, 3.25, 10, 0.0, 1e-3, float(repr(R.uniform(0.01, 5)))))
            if R.random() < 0.15:
                # the documented third kind of factor: an ndarray (one value per magnitude bin, or per bin)
                v = {'array': [float(R.choice((0.5, 1.0, 2.0, 0.25))) for _ in range(nm)]} if R.random() < 0.6 else \
                    {'array': [[float(R.choice((0.5, 1.0, 2.0))) for _ in range(nm)] for _ in cells]}
            ops.append({'op': 'SCALE', 'v': v, 'actor': actor})
        elif x < 0.36:
            where = R.choice(('before', 'start', 'inside', 'inside', 'inside', 'end', 'after'))
            if where == 'before':
                t = start_ms - R.randint(1, 400) * DAY_MS
            elif where == 'start':
                t = start_ms
            elif where == 'end':
                t = end_ms
            elif where == 'after':
                t = end_ms + R.randint(1, 400) * DAY_MS
            else:
                t = R.randint(start_ms + 1000, end_ms - 1000) if end_ms - start_ms > 2000 else start_ms + 1
                if R.random() < 0.5:
                    t -= t % DAY_MS
                    if t <= start_ms:
                        t = start_ms + 3600000
            ops.append({'op': 'SCALE_TO_DATE', 't_ms': t, 'where': where, 'actor': actor})
        elif x < 0.42:
            # the same file loaded again later in the process: must be pristine and independent of the first object
            ops.append({'op': 'RELOAD', 'v': R.choice((2, 0.5, 7.0)), 'actor': actor})
        elif x < 0.46 and not quad:
            # another forecast file on the same cells with other magnitude bins is loaded later in the process
            ops.append({'op': 'LOAD_OTHER', 'shift': R.choice((0.5, 1.0, 0.05)), 'extra_bins': R.randint(0, 2), 'actor': actor})
        elif x < 0.5:
            ops.append({'op': 'READ', 'actor': actor, 'scribble': R.random() < 0.3})
        elif x < 0.75:
            pts = []
            for _k in range(R.randint(1, 5)):
                ci = R.randrange(n_cells)
                where = R.choice(('interior', 'interior', 'corner', 'corner', 'lon-edge', 'lat-edge'))
                mk = R.randrange(nm)
                mwhere = R.choice(('interior', 'edge', 'edge', 'top'))
                pts.append({'cell': ci, 'where': where, 'fx': R.choice(LOOKUP_FRACS), 'fy': R.choice(LOOKUP_FRACS),
                            'mbin': mk, 'mwhere': mwhere, 'fm': R.choice(LOOKUP_FRACS)})
            ops.append({'op': 'LOOKUP', 'points': pts, 'actor': actor})
        elif x < 0.8 and not quad:
            ops.append({'op': 'LOOKUP_OUTSIDE', 'which': R.choice(('hole', 'left', 'below', 'right', 'above')),
                        'actor': actor})
        elif x < 0.9:
            evs = []
            for k in range(R.randint(1, 5)):
                evs.append({'cell': R.randrange(n_cells), 'fx': R.choice(gen.FRACS), 'fy': R.choice(gen.FRACS),
                            'mbin': R.randrange(nm), 'fm': R.choice(gen.FRACS)})
            o = {'op': 'TARGET_RATES', 'events': evs, 'scale': R.random() < 0.5, 'actor': actor}
            if not quad and R.random() < 0.15:
                o['outside'] = R.choice(('hole', 'left', 'below', 'right', 'above'))   # one event the region does not contain
            ops.append(o)
        else:
            evs = []
            for k in range(R.randint(0, 5)):
                evs.append({'cell': R.randrange(n_cells), 'fx': R.choice(gen.FRACS), 'fy': R.choice(gen.FRACS),
                            'mbin': R.randrange(nm), 'fm': R.choice(gen.FRACS)})
            ops.append({'op': 'EVAL', 'test': R.choice(('N', 'CL', 'S', 'M')), 'events': evs,
                        'seed': R.randint(1, 10 ** 6), 'actor': actor})
    return {'engine': 'gridsim', 'region': region, 'cells': cells, 'mags': mags, 'start_ms': start_ms, 'end_ms': end_ms,
            'aware': R.random() < 0.3,
            'swap_latlon': swap, 'ops': ops, 'tz': R.choice(TZ_CHOICES), 'clock_us': R.randint(0, 4 * 10 ** 15),
            'name': 'simgrid'}


# --------------------------------------------------------------------------- file writing

def write_dat(path, scn):
    dm = scn['mags']['dm']
    edges = scn['mags']['edges']
    lines = []
    for c in scn['cells']:
        for k, m0 in enumerate(edges):
            m1 = gen.dec(m0 + dm, 4)
            if scn['region']['kind'] == 'quad':
                b = gen.quadkey_bounds(c['qk'])
                lines.append('%s %r %r %r %r 0.0 30.0 %r %r %r' % (c['qk'], b[0], b[2], b[1], b[3], m0, m1, c['rates'][k]))
            else:
                a, b_ = (c['lat0'], c['lat1']) if scn['swap_latlon'] else (c['lon0'], c['lon1'])
                c_, d = (c['lon0'], c['lon1']) if scn['swap_latlon'] else (c['lat0'], c['lat1'])
                lines.append('%r %r %r %r 0.0 30.0 %r %r %r %d' % (a, b_, c_, d, m0, m1, c['rates'][k], c['flag']))
    with open(path, 'w') as f:
        f.write('\n'.join(lines) + '\n')


def load_forecast(path, scn):
    import csep
    from csep.core.forecasts import GriddedForecast
    st = build.utc(scn['start_ms'])
    en = build.utc(scn['end_ms'])
    if not scn.get('aware'):
        # start / end / test dates are either all naive or all timezone-aware (UTC)
        st, en = st.replace(tzinfo=None), en.replace(tzinfo=None)
    if scn['region']['kind'] == 'quad':
        from csep.utils import readers
        return GriddedForecast.from_custom(readers.quadtree_ascii_loader, func_args=(path,), start_time=st,
                                           end_time=en, name=scn['name'])
    kw = dict(start_date=st, end_date=en)
    if scn['swap_latlon']:
        kw['swap_latlon'] = True
    return csep.load_gridded_forecast(path, **kw)


# --------------------------------------------------------------------------- execution

def _outside_point(reg, which):
    dh = reg['dh']
    pt = None
    if which == 'hole' and reg['holes']:
        o = reg['holes'][0]
        pt = (o[0] + dh * 0.5, o[1] + dh * 0.5)
    elif which == 'left':
        pt = (reg['ax'] - dh * 1.5, reg['ay'] + dh * 0.5)
    elif which == 'below':
        pt = (reg['ax'] + dh * 0.5, reg['ay'] - dh * 1.5)
    elif which == 'right' and reg['nx'] >= 2:
        pt = (reg['ax'] + dh * (reg['nx'] + 0.5), reg['ay'] + dh * 0.5)
    elif which == 'above' and reg['ny'] >= 2:
        pt = (reg['ax'] + dh * 0.5, reg['ay'] + dh * (reg['ny'] + 0.5))
    return pt


def execute(scn, ctx):
    store = SimStore()
    clock = SimClock(scn.get('clock_us', 0))
    rng = SimRandom(initial_seed=1)
    set_tz(scn.get('tz', 'UTC'))
    store.install()
    clock.install()
    rng.install()
    try:
        _execute(scn, ctx, store, clock, rng)
    finally:
        rng.remove()
        clock.remove()
        store.remove()
        store.cleanup()
        set_tz('UTC')


def _point(scn, fc, p, cell_index_of):
    """lookup point for spec p: (lon, lat, mag)"""
    c = scn['cells'][p['cell']]
    if scn['region']['kind'] == 'quad':
        # the tile is identified by its quadkey (not by its position in the region); exact corners come from the
        # loaded region's own bounds of that quadkey, interiors from the tile geometry
        qks = [str(q) for q in fc.region.quadkeys]
        if c['qk'] in qks:
            b = fc.region.bounds[qks.index(c['qk'])]
        else:
            b = gen.quadkey_bounds(c['qk'])
        lon0, lat0, lon1, lat1 = float(b[0]), float(b[1]), float(b[2]), float(b[3])
    else:
        lon0, lat0, lon1, lat1 = c['lon0'], c['lat0'], c['lon1'], c['lat1']
    w = p.get('where', 'interior')
    lon = lon0 if w in ('corner', 'lon-edge') else lon0 + (lon1 - lon0) * p['fx']
    lat = lat0 if w in ('corner', 'lat-edge') else lat0 + (lat1 - lat0) * p['fy']
    e = scn['mags']['edges']
    dm = scn['mags']['dm']
    mw = p.get('mwhere', 'interior')
    if mw == 'edge':
        mag = e[p['mbin']]
    elif mw == 'top':
        mag = e[-1] + dm * 3.5
    else:
        mag = gen.dec(e[p['mbin']] + dm * p['fm'], 6)
    mb = len(e) - 1 if mw == 'top' else p['mbin']
    return lon, lat, mag, mb


def _execute(scn, ctx, store, clock, rng):
    from csep.core import poisson_evaluations as pe
    from csep.utils.time_utils import decimal_year
    path = store.path(scn['name'] + '.dat')
    write_dat(path, scn)
    quad = scn['region']['kind'] == 'quad'
    r = call(load_forecast, path, scn)
    if r[0] != 'ok':
        ctx.violate('C11', 'load', 'exception:%s' % r[1], {'msg': r[2], 'cells': len(scn['cells']),
                                                           'mags': len(scn['mags']['edges'])})
        return
    fc = r[1]
    edges = scn['mags']['edges']
    nm = len(edges)
    cells = scn['cells']
    ctx.count('cfg:' + ('quad' if quad else 'cart'))
    if scn.get('swap_latlon'):
        ctx.count('cfg:swap_latlon')
    if any(c.get('flag', 1) == 0 for c in cells):
        ctx.count('cfg:flagged_cells')
    # ---- static clauses: magnitudes, shape, base data ------------------------------------------------
    got_m = numpy.asarray(fc.magnitudes, dtype=float).tolist()
    if got_m != [float(x) for x in edges]:
        ctx.violate('C11', 'magnitudes', 'edges-differ-from-file', {'got': got_m, 'want': edges})
        return
    base = numpy.array([c['rates'] for c in cells], dtype=float)
    data0 = numpy.array(fc.data)
    if data0.shape != base.shape:
        ctx.violate('C11', 'load', 'data-shape', {'got': list(data0.shape), 'want': list(base.shape)})
        return
    # row i of the forecast belongs to the i-th distinct cell of the file (delivery order)
    cell_index_of = list(range(len(cells)))
    factor = {'v': 1, 'alts': [1]}

    def expected(f):
        return base * f

    def check_data(oi, label):
        d = numpy.array(fc.data)
        for f in factor['alts']:
            if hexf(d) == hexf(numpy.array(expected(f))):
                factor['v'] = f
                factor['alts'] = [f]
                return True
        # which failure class?
        f = factor['alts'][0]
        e = expected(f)
        sig = 'data-not-original-times-last-factor'
        if d.shape == e.shape and e.size and numpy.all(e != 0) and numpy.allclose(d / e, (d / e).ravel()[0]) \
                and not numpy.allclose(d, e):
            sig = 'data-scaled-by-wrong-factor'
        elif d.shape == e.shape and numpy.allclose(numpy.sort(d.ravel()), numpy.sort(e.ravel())) and \
                not numpy.allclose(d, e):
            sig = 'rates-assigned-to-wrong-bins'
        ctx.violate('C11', 'scale_history' if oi >= 0 else 'load', '%s:%s' % (label, sig),
                    {'op': oi, 'factor_expected': [x if numpy.ndim(x) == 0 else 'ndarray' for x in factor['alts']],
                     'got_sum': float(d.sum()),
                     'want_sum': float(numpy.array(e).sum())})
        return False

    if not check_data(-1, 'LOAD'):
        return
    if not any(c.get('flag', 1) == 0 for c in cells):
        tot = float(sum(sum(c['rates']) for c in cells))
        if not models.close(fc.event_count, tot, 1e-12, 0):
            ctx.violate('C11', 'total', 'unflagged-total-not-sum-of-rate-column', {'got': float(fc.event_count), 'want': tot})

    def lookup(lons, lats, mags_):
        return fc.get_rates(numpy.array(lons, dtype=float), numpy.array(lats, dtype=float),
                            numpy.array(mags_, dtype=float))

    def cur_factor():
        return factor['v']

    for oi, op in enumerate(scn['ops']):
        kind = op['op']
        ctx.count('op:' + kind)
        if kind == 'SCALE':
            v_ = numpy.array(op['v']['array'], dtype=float) if isinstance(op['v'], dict) else op['v']
            if isinstance(op['v'], dict):
                ctx.count('rare:ndarray_scale_factor')
            r = call(fc.scale, v_)
            if r[0] != 'ok':
                ctx.violate('C11', 'exception', 'SCALE:%s' % r[1], {'op': oi, 'msg': r[2]})
                return
            factor['alts'] = [v_]
        elif kind == 'SCALE_TO_DATE':
            t = build.utc(op['t_ms']) if scn.get('aware') else build.utc(op['t_ms']).replace(tzinfo=None)
            r = call(fc.scale_to_test_date, t)
            if r[0] != 'ok':
                ctx.violate('C11', 'exception', 'SCALE_TO_DATE:%s' % r[1], {'op': oi, 'msg': r[2]})
                return
            st = build.utc(scn['start_ms']) if scn.get('aware') else build.utc(scn['start_ms']).replace(tzinfo=None)
            en = build.utc(scn['end_ms']) if scn.get('aware') else build.utc(scn['end_ms']).replace(tzinfo=None)
            if st < t < en:
                dur = decimal_year(en) - decimal_year(st)
                frac = (decimal_year(t + datetime.timedelta(1)) - decimal_year(st)) / dur
                factor['alts'] = [frac]
                ctx.count('rare:scale_to_date_in_window')
                # time-zone seam: the elapsed fraction is calendar arithmetic on the given dates and must not depend on
                # the zone (or daylight-saving rules) the process happens to run in
                tz_now = scn.get('tz', 'UTC')
                cur_tz_ = os.environ.get('TZ', 'UTC')
                set_tz('UTC')
                try:
                    dur0 = decimal_year(en) - decimal_year(st)
                    frac0 = (decimal_year(t + datetime.timedelta(1)) - decimal_year(st)) / dur0
                finally:
                    set_tz(cur_tz_)
                if hexf(frac0) != hexf(frac):
                    ctx.violate('C11', 'scale_history', 'SCALE_TO_DATE:factor-depends-on-process-time-zone',
                                {'op': oi, 'tz': cur_tz_, 'factor': frac, 'factor_in_utc': frac0})
                    return
            else:
                # docstring: "scale the forecast by unity"; code: leaves the factor. Both accepted.
                factor['alts'] = [factor['v'], 1]
                ctx.count('rare:scale_to_date_out_of_window')
        elif kind == 'LOAD_OTHER':
            other = copy.deepcopy(scn)
            e0 = other['mags']['edges']
            n_new = len(e0) + op['extra_bins']
            other['mags'] = {'dm': scn['mags']['dm'], 'edges': [gen.dec(e0[0] + op['shift'] + k * scn['mags']['dm'], 4)
                                                                 for k in range(n_new)]}
            for c in other['cells']:
                c['rates'] = [float(k + 1) for k in range(n_new)]
            other['name'] = scn['name'] + '_other'
            p2 = store.path(other['name'] + '.dat')
            write_dat(p2, other)
            r = call(load_forecast, p2, other)
            ctx.count('load_other_checked')
            if r[0] == 'ok':
                call(r[1].scale, 3.0)
                # the second forecast itself must be what its file says (both objects are checked, alternately)
                o2 = r[1]
                d2 = numpy.array(o2.data)
                want2 = numpy.array([c['rates'] for c in other['cells']], dtype=float) * 3.0
                if d2.shape != want2.shape or hexf(d2) != hexf(want2) or \
                        numpy.asarray(o2.magnitudes, dtype=float).tolist() != [float(x) for x in other['mags']['edges']]:
                    ctx.violate('C11', 'load', 'second-forecast-on-the-same-cells-is-not-its-file', {'op': oi})
                    return
            got_m = numpy.asarray(fc.magnitudes, dtype=float).tolist()
            if got_m != [float(x) for x in edges]:
                ctx.violate('C11', 'magnitudes', 'edges-changed-by-loading-another-file', {'op': oi, 'got': got_m, 'want': edges})
                return
        elif kind == 'RELOAD':
            r = call(load_forecast, path, scn)
            if r[0] != 'ok':
                ctx.violate('C11', 'load', 'reload-exception:%s' % r[1], {'op': oi, 'msg': r[2]})
                return
            second = r[1]
            ctx.count('reload_checked')
            if hexf(numpy.array(second.data)) != hexf(numpy.array(base * 1)):
                ctx.violate('C11', 'load', 'reloaded-forecast-is-not-the-file', {'op': oi, 'first_object_factor': factor['alts'],
                                                                                'got_sum': float(numpy.array(second.data).sum()),
                                                                                'file_sum': float(base.sum())})
                return
            second.scale(op['v'])
            # (whether the first object was affected is decided by check_data below)
        elif kind == 'READ':
            d = numpy.array(fc.data)
            tot_raw = fc.sum()
            if numpy.ndim(tot_raw) != 0 or numpy.ndim(fc.event_count) != 0:
                ctx.violate('C11', 'marginals', 'total-is-not-a-single-number', {'op': oi, 'shape': list(numpy.shape(tot_raw))})
                return
            tot = float(tot_raw)
            sc = numpy.array(fc.spatial_counts())
            mc = numpy.array(fc.magnitude_counts())
            ctx.log('read', oi, tot)
            ref = float(d.sum())
            if not quad and not any(c.get('flag', 1) == 0 for c in cells):
                # bounding-box view of the spatial marginal: cells of the region carry their value, holes are NaN
                rc = call(fc.spatial_counts, cartesian=True)
                if rc[0] == 'ok':
                    g = numpy.array(rc[1], dtype=float)
                    ctx.count('cartesian_view_checked')
                    if abs(float(numpy.nansum(g)) - ref) > 1e-12 * max(abs(ref), 1e-300) or \
                            int(numpy.isnan(g).sum()) != g.size - len(cells):
                        ctx.violate('C11', 'marginals', 'cartesian-view-of-spatial-marginal',
                                    {'op': oi, 'nansum': float(numpy.nansum(g)), 'total': ref,
                                     'nan_cells': int(numpy.isnan(g).sum()), 'holes': g.size - len(cells)})
            tol = 1e-12 * max(abs(ref), 1e-300)
            if abs(tot - ref) > tol or abs(float(fc.event_count) - ref) > tol:
                ctx.violate('C11', 'marginals', 'sum-differs-from-data', {'op': oi, 'sum': tot, 'data_sum': ref})
            if sc.shape != (len(cells),) or abs(float(sc.sum()) - ref) > tol or \
                    not numpy.allclose(sc, d.sum(axis=1), rtol=1e-12, atol=0):
                ctx.violate('C11', 'marginals', 'spatial-marginal', {'op': oi, 'got': float(sc.sum()), 'total': ref})
            if mc.shape != (nm,) or abs(float(mc.sum()) - ref) > tol or \
                    not numpy.allclose(mc, d.sum(axis=0), rtol=1e-12, atol=0):
                ctx.violate('C11', 'marginals', 'magnitude-marginal', {'op': oi, 'got': float(mc.sum()), 'total': ref})
            if op.get('scribble'):
                # the caller goes on computing in place on the arrays it was handed (normalising to a pdf, masking ...):
                # they are the caller's arrays, the forecast keeps its rates
                ctx.count('fire:caller_modifies_returned_arrays_in_place')
                for getter, how in ((lambda: fc.data, 'norm'), (lambda: fc.spatial_counts(), 'zero'),
                                    (lambda: fc.magnitude_counts(), 'inc')):
                    ra_ = call(getter)
                    a_ = ra_[1] if ra_[0] == 'ok' else None
                    if isinstance(a_, numpy.ndarray) and a_.flags.writeable and a_.dtype.kind == 'f':
                        if how == 'norm':
                            a_ /= (float(a_.sum()) or 1.0)
                        elif how == 'zero':
                            a_ *= 0
                        else:
                            a_ += 1
        elif kind == 'LOOKUP':
            for p in op['points']:
                if p['cell'] >= len(cells):
                    continue
                c = cells[p['cell']]
                lon, lat, mag, mb = _point(scn, fc, p, cell_index_of)
                r = call(lookup, [lon], [lat], [mag])
                w = p.get('where', 'interior')
                ctx.count('lookup:' + w + ':' + p.get('mwhere', 'interior'))
                ctx.log('lookup', oi, lon, lat, mag, r[0], r[1] if r[0] != 'ok' else float(r[1][0]))
                if c.get('flag', 1) == 0:
                    if r[0] == 'ok':
                        ctx.violate('C11', 'lookup', 'flag0-cell-inside-region:%s' % w,
                                    {'op': oi, 'lon': lon, 'lat': lat, 'rate': float(r[1][0])})
                    elif r[1] != 'ValueError':
                        ctx.violate('C11', 'exception', 'LOOKUP:%s' % r[1], {'op': oi, 'msg': r[2]})
                    continue
                if r[0] != 'ok':
                    ctx.violate('C11', 'lookup', 'point-in-box-rejected:%s:%s' % (w, r[1]),
                                {'op': oi, 'lon': lon, 'lat': lat, 'mag': mag, 'msg': r[2]})
                    continue
                want = None
                ci_ = p['cell']
                for f in factor['alts']:
                    if hexf(float(r[1][0])) == hexf(float(numpy.array(expected(f))[ci_, mb])):
                        want = True
                if want is None:
                    ctx.violate('C11', 'lookup', 'wrong-rate:%s:%s' % (w, p.get('mwhere', 'interior')),
                                {'op': oi, 'lon': lon, 'lat': lat, 'mag': mag, 'got': float(r[1][0]),
                                 'want': float(numpy.array(expected(factor['alts'][0]))[ci_, mb]),
                                 'cell': [c.get('lon0'), c.get('lat0'), c.get('qk')]})
        elif kind == 'LOOKUP_OUTSIDE':
            which = op['which']
            pt = _outside_point(scn['region'], which)
            if pt is None:
                continue
            r = call(lookup, [pt[0]], [pt[1]], [edges[0]])
            ctx.count('lookup_outside:' + which)
            if r[0] == 'ok':
                ctx.violate('C11', 'lookup', 'outside-point-accepted:%s' % which, {'op': oi, 'point': pt})
            elif r[1] != 'ValueError':
                ctx.violate('C11', 'exception', 'LOOKUP_OUTSIDE:%s' % r[1], {'op': oi, 'msg': r[2]})
        elif kind in ('TARGET_RATES', 'EVAL'):
            evs = []
            want_rates = []
            ok_cells = True
            for k, e in enumerate(op['events']):
                if e['cell'] >= len(cells):
                    ok_cells = None
                    break
                if cells[e['cell']].get('flag', 1) == 0:
                    ok_cells = False        # an event in a switched-off cell: the call fails part-way (a fault in the op)
                lon, lat, mag, mb = _point(scn, fc, dict(e, where='interior', mwhere='interior'), cell_index_of)
                evs.append(['t%d' % k, scn['start_ms'] + 1000 * (k + 1), lat, lon, 5.0, mag])
                want_rates.append((e['cell'], mb))
            if ok_cells is None or (not ok_cells and kind != 'TARGET_RATES'):
                continue
            if op.get('outside'):
                pt = _outside_point(scn['region'], op['outside'])
                if pt is not None:
                    evs.insert(len(evs) // 2, ['tout', scn['start_ms'] + 500, pt[1], pt[0], 5.0, evs[0][5]])
                    ok_cells = False
            cat = build.make_catalog(evs, region=fc.region, name='tc')
            before = hexf(numpy.array(fc.data))
            if kind == 'TARGET_RATES' and not ok_cells:
                # the library may answer or refuse; either way the forecast afterwards is what it was before
                r = call(fc.target_event_rates, cat, scale=op['scale'])
                ctx.count('fire:target_rates_event_in_flag0_cell:' + (r[1] if r[0] != 'ok' else 'answered'))
            elif kind == 'TARGET_RATES':
                r = call(fc.target_event_rates, cat, scale=op['scale'])
                if r[0] != 'ok':
                    ctx.violate('C11', 'exception', 'TARGET_RATES:%s' % r[1], {'op': oi, 'msg': r[2]})
                    return
                rates_t, n_f = r[1]
                days = (build.utc(scn['end_ms']) - build.utc(scn['start_ms'])).days
                div = days if op['scale'] else 1
                okv = False
                for f in factor['alts']:
                    ex_ = numpy.array(expected(f))
                    w = numpy.array([ex_[ci2, mb2] for ci2, mb2 in want_rates], dtype=float) / div
                    if numpy.allclose(numpy.array(rates_t, dtype=float), w, rtol=1e-12, atol=0) and \
                            models.close(float(n_f), float((base * f).sum()) / div, 1e-12, 0):
                        okv = True
                if not okv:
                    ctx.violate('C11', 'target_rates', 'values' + (':scaled' if op['scale'] else ''),
                                {'op': oi, 'got': numpy.array(rates_t).tolist(), 'n_fore': float(n_f)})
            else:
                f = {'N': pe.number_test, 'CL': pe.conditional_likelihood_test, 'S': pe.spatial_test,
                     'M': pe.magnitude_test}[op['test']]
                kw = {} if op['test'] == 'N' else dict(num_simulations=3, seed=op['seed'])
                r = call(f, fc, cat, **kw)
                if r[0] != 'ok':
                    ctx.count('eval_exception:' + r[1])       # evaluations are C05/C06's business
                else:
                    # twin: freshly loaded, scaled once with the current factor
                    t = load_forecast(path, scn)
                    t.scale(factor['v'])
                    cat2 = build.make_catalog(evs, region=t.region, name='tc')
                    r2 = call(f, t, cat2, **kw)
                    if r2[0] == 'ok' and len(factor['alts']) == 1:
                        a, b = result_view(r[1]), result_view(r2[1])
                        ctx.count('eval_twin_pairs')
                        if hexf([a['obs'], a['quantile']]) != hexf([b['obs'], b['quantile']]):
                            ctx.violate('C11', 'scale_history', 'evaluation-differs-from-freshly-scaled-twin:%s' % op['test'],
                                        {'op': oi, 'subject': [a['obs'], a['quantile']], 'twin': [b['obs'], b['quantile']]})
            if hexf(numpy.array(fc.data)) != before:
                ctx.violate('C11', 'scale_history', '%s:modified-forecast-data' % kind, {'op': oi})
                return
        ctx.log('op', oi, kind, numpy.array(fc.data))
        if not check_data(oi, kind):
            return
        ctx.state((kind, len(factor['alts'])))
    ctx.sim_time_ms += (clock.max_us - clock.min_us) // 1000


# --------------------------------------------------------------------------- shrinking

def shrink_candidates(scn):
    def variant(f):
        s = copy.deepcopy(scn)
        f(s)
        return s
    n = len(scn['ops'])
    if n > 1:
        yield variant(lambda s: s.__setitem__('ops', s['ops'][n // 2:]))
        yield variant(lambda s: s.__setitem__('ops', s['ops'][:n // 2]))
        for i in range(n):
            yield variant(lambda s, i=i: s['ops'].pop(i))
    for i, op in enumerate(scn['ops']):
        for key in ('points', 'events'):
            if key in op and len(op[key]) > 1:
                for k in range(len(op[key])):
                    yield variant(lambda s, i=i, k=k, key=key: s['ops'][i][key].pop(k))
    # drop the last cell (indices of earlier cells stay valid; ops naming it are skipped)
    if len(scn['cells']) > 1:
        def drop_last(s):
            c = s['cells'].pop()
            if s['region']['kind'] == 'quad':
                s['region']['quadkeys'] = [x['qk'] for x in s['cells']]
        yield variant(drop_last)
    if len(scn['mags']['edges']) > 1:
        def drop_mag(s):
            s['mags']['edges'].pop()
            for c in s['cells']:
                c['rates'].pop()
            for o in s['ops']:
                for key in ('points', 'events'):
                    for p in o.get(key, []):
                        p['mbin'] = min(p['mbin'], len(s['mags']['edges']) - 1)
        yield variant(drop_mag)
    if scn.get('swap_latlon'):
        yield variant(lambda s: s.__setitem__('swap_latlon', False))
    if scn.get('tz') != 'UTC':
        yield variant(lambda s: s.__setitem__('tz', 'UTC'))

    def ones(s):
        for c in s['cells']:
            c['rates'] = [float(k + 1 + 10 * i) for k in range(len(c['rates']))
                          for i in [s['cells'].index(c)]]
    yield variant(ones)


class Engine:
    name = 'gridsim'
    generate = staticmethod(generate)
    execute = staticmethod(execute)
    shrink_candidates = staticmethod(shrink_candidates)

    @staticmethod
    def shape(scn):
        return {'kind': scn['region']['kind'], 'cells': len(scn['cells']), 'nm': len(scn['mags']['edges']),
                'flags': [c.get('flag', 1) for c in scn['cells']], 'swap': scn.get('swap_latlon'),
                'dh': scn['region'].get('dh'),
                'ops': [(o['op'], o.get('v'), o.get('where'), o.get('test'), o.get('scale')) for o in scn['ops']]}

    @staticmethod
    def nontrivial(scn, ctx):
        return len(scn['ops']) >= 2

    @staticmethod
    def sample_view(scn):
        return {'layout': scn['region']['kind'], 'dh': scn['region'].get('dh'), 'cells': len(scn['cells']),
                'first_cell': scn['cells'][0], 'mag_edges': scn['mags']['edges'], 'swap_latlon': scn.get('swap_latlon'),
                'ops': [{k: v for k, v in o.items() if k not in ('actor', 'points', 'events')} for o in scn['ops'][:10]]}

    @staticmethod
    def rule(focus):
        return ('a generated CSEP .dat file (decimal anchor incl. near 0, dh in {0.1,0.2,0.25,0.5,1}, holes, flag-0 cells, '
                '1..5 magnitude bins, three cell orders, optional lat/lon column swap; 15% quadtree ascii files) is loaded '
                'with the real loader and driven by a seeded history of SCALE / SCALE_TO_DATE (before, at, inside, after '
                'the window) / READ / LOOKUP (interior, lower corner, lower edges, lower magnitude edges, open top bin) / '
                'LOOKUP_OUTSIDE / TARGET_RATES(scale; also with an event the region does not contain, so that the call fails '
                'part-way) / EVAL / RELOAD / LOAD_OTHER by 1-2 actors, with the fault "caller goes on computing in place on '
                'arrays the forecast handed out"; after every op data == file rates x last factor '
                '(bit-exact). distinct = digest of (layout, flags, op list with arguments); non-trivial = >= 2 ops')

    @staticmethod
    def components():
        return {'real': ['csep.load_gridded_forecast / GriddedForecast.load_ascii / from_custom + readers.quadtree_ascii_loader',
                         'GriddedForecast.scale / scale_to_test_date / get_rates / target_event_rates / sum / marginals',
                         'csep.core.regions (CartesianGrid2D, QuadtreeGrid2D)', 'csep.utils.calc.bin1d_vec', 'numpy.loadtxt',
                         'file system (tmpfs scratch dir)'],
                'stubbed': ['numpy.random entry points (for EVAL)', 'wall clock', 'open() proxy', 'TZ', 'stdout'],
                'not_run': ['plotting', 'web clients']}

    @staticmethod
    def assumptions(focus):
        return ['decimal_year (C15) is used as the library computes it for the in-window factor',
                'an out-of-window scale_to_test_date may leave the factor or reset it to 1 (docstring and code disagree)',
                'quadtree lower corners are taken from the loaded region\'s own bounds']


ENGINE = Engine
