"""Engine B `rngsim`: the process-global NumPy RNG as a simulated, recorded, perturbed resource.

Serves C05 (Poisson L/CL/S/M statistics of observed and simulated catalogs), C06 (exact
inverse-CDF placement, conservation of counts, quantile, determinism in (forecast, catalog,
seed) whatever happened to the global generator before, bounded liveness of rejection loops)
and C16 (binary likelihood / Brier values for observed and simulated catalogs).

A run is a history of evaluation calls, NOISE ops (another component drawing from or re-seeding
the global generator) and legal perturbations of individual draws (override script).
"""
import copy
import itertools
import math

import numpy

from .. import gen, build, models
from ..kernel import SimBudgetExceeded, hexf
from ..seams import SimRandom, SimClock, SimStore, set_tz, TZ_CHOICES
from .fcsim import cell_of, mbin_of, grid_counts, call, result_view

POISSON_TESTS = ('L', 'CL', 'S', 'M')
BINARY_TESTS = ('BS', 'BCL', 'BRIER')
CAT_TESTS = ('RM', 'MLL', 'MLLF')
HARD_CAP = 400000


# --------------------------------------------------------------------------- helpers shared by gen / model

def flat_rates(test, rates2d):
    """The flat rate array a test samples from (float arithmetic as NumPy does it)."""
    r = numpy.array(rates2d, dtype=float)
    if test in ('L', 'CL', 'BCL', 'BRIER'):
        return r.ravel()
    if test in ('S', 'BS'):
        return numpy.sum(r, axis=1)
    if test == 'M':
        return numpy.sum(r, axis=0)
    raise ValueError(test)


def flat_counts(test, counts2d):
    c = numpy.array(counts2d, dtype=float)
    if test in ('L', 'CL', 'BCL', 'BRIER'):
        return c.ravel()
    if test in ('S', 'BS'):
        return c.sum(axis=1)
    return c.sum(axis=0)


def float_weights(flat):
    """cumulative weights the way a float implementation computes them (for boundary overrides)"""
    f = numpy.where(flat > 0, flat, 0.0)
    c = numpy.cumsum(f)
    return c / c[-1] if c[-1] > 0 else c


# --------------------------------------------------------------------------- generation

def inject_rows_for(R, test, rates2d, n_per_sim, nsim):
    """random_numbers= rows that name n_per_sim distinct positive-rate bins per simulation (interval mid-points),
    or None when some interval is too narrow to be hit unambiguously"""
    icdf = models.InverseCDF(flat_rates(test, rates2d).tolist())
    if n_per_sim > len(icdf.pos):
        return None
    rows = []
    for _ in range(nsim):
        row = []
        for i in R.sample(range(len(icdf.pos)), n_per_sim):
            lo = icdf.upper_f[i - 1] if i > 0 else 0.0
            u = lo + (icdf.upper_f[i] - lo) * 0.5
            cands, amb = icdf.place(u)
            if amb or cands != [icdf.pos[i]] or not (0.0 <= u < 1.0):
                return None
            row.append(u)
        rows.append(row)
    return rows


def gen_rates(R, n_cells, n_mags, binary_friendly, wide=False):
    """rates spanning many decades, with a per-run probability of exact zeros"""
    lo, hi = (-3, 0.5) if binary_friendly else R.choice(((-12, 3), (-6, 1), (-2, 2), (-1, 1)))
    if wide:
        lo, hi = -9, 1
    p_zero = R.choice((0.0, 0.0, 0.15, 0.4))
    zero_mode = R.choice(('scatter', 'leading', 'trailing', 'row'))
    rates = [[10 ** R.uniform(lo, hi) for _ in range(n_mags)] for _ in range(n_cells)]
    flat_n = n_cells * n_mags
    if p_zero > 0 and flat_n > 1:
        if zero_mode == 'scatter':
            for i in range(n_cells):
                for k in range(n_mags):
                    if R.random() < p_zero:
                        rates[i][k] = 0.0
        elif zero_mode == 'leading':
            z = R.randint(1, max(1, flat_n // 2))
            for q in range(z):
                rates[q // n_mags][q % n_mags] = 0.0
        elif zero_mode == 'trailing':
            z = R.randint(1, max(1, flat_n // 2))
            for q in range(flat_n - z, flat_n):
                rates[q // n_mags][q % n_mags] = 0.0
        else:
            i = R.randrange(n_cells)
            rates[i] = [0.0] * n_mags
    if not any(v > 0 for row in rates for v in row):
        rates[0][0] = 1.0
    if R.random() < 0.15:      # "clean" rates whose cumulative sum rounds below one
        v = R.choice((0.1, 0.3, 0.7))
        rates = [[(v if x > 0 else 0.0) for x in row] for row in rates]
    return rates


def gen_obs(R, world, n_max, allow_zero_rate_bins):
    region, mags, rates = world['region'], world['mags'], world['rates']
    nc, nm = gen.n_cells(region), len(mags['edges'])
    pos = [(i, k) for i in range(nc) for k in range(nm) if rates[i][k] > 0]
    allb = [(i, k) for i in range(nc) for k in range(nm)]
    n = R.choice((0, 0, 1, 2, R.randint(0, n_max), R.randint(0, n_max)))
    pool = allb if allow_zero_rate_bins else pos
    evs = []
    if R.random() < 0.04:
        # one very crowded bin (hundreds of events): the log-factorial term for large counts
        i, k = R.choice(pos)
        for j in range(R.choice((R.randint(171, 230), R.randint(171, 230), 255, 256, 257, 300, 512))):
            ev, _, _ = gen.gen_event(R, region, mags, cell=i, mbin=k, eid='o%d' % j, start_ms=world['start_ms'],
                                     end_ms=world['end_ms'])
            evs.append(ev)
        return evs
    for j in range(n):
        i, k = R.choice(pool)
        if evs and R.random() < 0.3:      # several events per bin
            prev = evs[R.randrange(len(evs))]
            i, k = cell_of(prev, region), mbin_of(prev[5], mags)
        ev, _, _ = gen.gen_event(R, region, mags, cell=i, mbin=k, eid='o%d' % j,
                                 start_ms=world['start_ms'], end_ms=world['end_ms'])
        evs.append(ev)
    return evs


def gen_overrides(R, test, rates2d, n_draws_hint):
    """legal perturbations of individual uniform draws for one op -> {ordinal: [kind, value]}"""
    if R.random() < 0.55 or n_draws_hint <= 0:
        return {}
    w = float_weights(flat_rates(test, rates2d))
    one_minus = float(numpy.nextafter(1.0, 0.0))
    out = {}
    for _ in range(R.randint(1, 4)):
        o = R.randrange(min(n_draws_hint, 64))
        kind = R.choice(('zero', 'max', 'boundary', 'boundary-', 'boundary+', 'last', 'gap'))
        if kind == 'zero':
            v = 0.0
        elif kind == 'max':
            v = one_minus
        elif kind == 'last':
            v = float(w[-1]) if w[-1] < 1.0 else one_minus
            # weights computed as cumsum/sum may end below one: a draw at or above that value
            raw = numpy.cumsum(flat_rates(test, rates2d)) / numpy.sum(flat_rates(test, rates2d))
            if raw[-1] < 1.0:
                v = float(raw[-1])
        elif kind == 'gap':
            zs = [k for k in range(len(w)) if (k == 0 and w[0] == 0) or (k > 0 and w[k] == w[k - 1])]
            if not zs:
                continue
            v = float(w[R.choice(zs)])
        else:
            k = R.randrange(len(w))
            v = float(w[k])
            if kind == 'boundary-':
                v = float(numpy.nextafter(v, 0.0))
            elif kind == 'boundary+':
                v = float(numpy.nextafter(v, 1.0))
        if not (0.0 <= v < 1.0):
            continue
        out[str(o)] = [kind, v]
    return out


def generate(R, tier, focus):
    thorough = tier == 'thorough'
    binary_focus = focus == 'C16' or (focus == 'C06' and R.random() < 0.4)
    quad = R.random() < 0.1
    region = gen.gen_quadtree(R) if quad else gen.gen_lattice(R, max_cells=12 if not thorough else 40)
    mags = gen.gen_mags(R, max_bins=5 if not thorough else 8)
    nc, nm = gen.n_cells(region), len(mags['edges'])
    # C16's quantifier says rates 1e-9..10: such worlds make rejection loops legitimately endless, so their
    # binary / Brier evaluations are driven through the library's own random_numbers= seam
    wide = focus == 'C16' and R.random() < 0.4
    rates = gen_rates(R, nc, nm, binary_focus, wide=wide)
    world = {'region': region, 'mags': mags, 'rates': rates, 'start_ms': gen.T0_MS, 'unnamed': R.random() < 0.15,
             'end_ms': gen.T0_MS + gen.YEAR_MS, 'layout': R.choice(('C', 'C', 'C', 'F', 'T'))}
    n_max = 30 if not thorough else R.choice((30, 100, 300))
    n_pos = sum(1 for row in rates for v in row if v > 0)
    obs = []
    for _ in range(R.randint(1, 2)):
        evs = gen_obs(R, world, n_max, allow_zero_rate_bins=R.random() < 0.25)
        obs.append({'events': evs})
    # a variant of obs[0] with changed multiplicities (same active bins): C16 "activity only"
    if obs[0]['events']:
        dup = [list(e) for e in obs[0]['events']]
        for j in range(R.randint(1, 3)):
            e = list(R.choice(obs[0]['events']))
            e[0] = 'dup%d' % j
            dup.append(e)
        obs.append({'events': dup, 'dup_of': 0})
    # small in-memory catalog forecast for the two seeded catalog-based tests
    cf = None
    if nm >= 2 and (focus == 'C06' or R.random() < 0.2):
        J = R.randint(1, 5)
        cats = []
        for cid in range(J):
            cats.append([gen.gen_event(R, region, mags, eid='c%de%d' % (cid, k), start_ms=world['start_ms'],
                                       end_ms=world['end_ms'])[0] for k in range(R.randint(0, 4))])
        if not any(cats):
            cats[0] = [gen.gen_event(R, region, mags, eid='c0e0', start_ms=world['start_ms'],
                                     end_ms=world['end_ms'])[0]]
        cf = {'cats': cats}
    if focus == 'C05':
        pool = list(POISSON_TESTS)
    elif focus == 'C16':
        pool = list(BINARY_TESTS)
    elif focus == 'C06':
        pool = list(POISSON_TESTS) + list(BINARY_TESTS) + (list(CAT_TESTS) if cf else [])
    else:
        pool = list(POISSON_TESTS) + list(BINARY_TESTS)
    # a second forecast on the same cells listed in another order (rates permuted alike): the same observed-catalog
    # object is re-bound to whichever forecast an evaluation uses (per-catalog caches must follow the region)
    alt_perm = None
    if nc > 1 and R.random() < 0.3:
        alt_perm = list(range(nc))
        R.shuffle(alt_perm)
    world['alt_perm'] = alt_perm
    world['bench'] = [[10 ** R.uniform(-3, 1) for _ in row] for row in rates]
    if alt_perm is None and nm >= 3 and R.random() < 0.15:
        # ... or a second forecast on the same cells with coarser magnitude bins (every second edge) and its own rates
        nmB = len(mags['edges'][::2])
        world['alt_mags'] = {'mags': {'dm': gen.dec(mags['dm'] * 2, 4), 'edges': mags['edges'][::2]},
                             'rates': gen_rates(R, nc, nmB, binary_focus),
                             'bench': [[10 ** R.uniform(-3, 1) for _ in range(nmB)] for _ in range(nc)]}
    wB = alt_world(world) if (alt_perm or world.get('alt_mags')) else None
    seeds = [None, 0, 1, 2 ** 32 - 1, R.randint(2, 10 ** 6)]
    n_ops = R.randint(1, 7) if not thorough else R.randint(1, 14)
    ops = []
    templates = []
    matrix_scaled = set()
    for _ in range(n_ops):
        x = R.random()
        if templates and x < 0.3:
            # repeat an earlier call verbatim (determinism oracle), possibly after noise
            t = copy.deepcopy(R.choice(templates))
            t['overrides'] = {}
            t['p_overrides'] = {}
            ops.append(t)
            continue
        if x < 0.42:
            if R.random() < 0.5:
                ops.append({'op': 'NOISE', 'kind': 'draw', 'n': R.randint(1, 9)})
            else:
                ops.append({'op': 'NOISE', 'kind': 'reseed', 'seed': R.choice((0, 1, 12345, 2 ** 32 - 1))})
            continue
        which = 'B' if wB is not None and R.random() < 0.4 else 'A'
        if x < 0.52:
            # another component uses the same forecast object between evaluations
            what = R.choice(('T', 'T_scaled', 'TARGET_scaled', 'N', 'READS', 'SCALE', 'SCALE', 'SCALE'))
            o = {'op': 'OTHER', 'what': what, 'fc': which, 'obs': R.randrange(len(obs))}
            if what == 'SCALE':
                o['v'] = R.choice((1, 0.5, 2, 3.25, 0.1, 1.0))
                if R.random() < 0.5:
                    # per-cell factors (an ndarray of shape (cells, 1)): unlike a scalar they change the sampling weights
                    o['v'] = [R.choice((0.5, 1.0, 2.0, 3.25)) for _ in range(nc)]
                    matrix_scaled.add(which)
                templates = []          # results before and after a re-scaling are different functions
            ops.append(o)
            continue
        wr = wB if which == 'B' else world
        rates_w, region_w = wr['rates'], wr['region']
        test = R.choice(pool)
        oi = R.randrange(len(obs))
        nsim = R.randint(1, 12) if not thorough else R.choice((1, 5, 25, 100))
        if R.random() < 0.003 and test != 'L' and test not in CAT_TESTS:
            # rarely a long test distribution, just past plausible block sizes of a batched implementation
            nsim = R.choice((101, 250, 257, 1025, 4097, 8193)) if test in POISSON_TESTS else R.choice((101, 250, 257, 1025))
        op = {'op': 'TEST', 'test': test, 'obs': oi, 'seed': R.choice(seeds), 'nsim': nsim, 'fc': which,
              'mode': 'rng', 'overrides': {}, 'p_overrides': {},
              'seed_type': R.choice(('int', 'int', 'int', 'int64', 'uint32')), 'verbose': R.random() < 0.2}
        if test in CAT_TESTS:
            op['seed'] = R.choice((0, 0, 1, 7, None))
            ops.append(op)
            templates.append(op)
            continue
        counts = grid_counts(obs[oi]['events'], region_w, wr['mags'])
        fc = flat_counts(test, counts)
        n_obs = int(fc.sum())
        n_active = int((fc > 0).sum())
        if test in BINARY_TESTS:
            npos_t = int((flat_rates(test, rates_w) > 0).sum())
            if n_active > npos_t:
                continue        # no valid simulated catalog exists: property vacuous
            if which in matrix_scaled and (wide or expected_draws(test, rates_w, n_active, nsim) >= 3000):
                continue        # rows prepared for the unscaled weights would not fit the re-weighted forecast
            if wide or expected_draws(test, rates_w, n_active, nsim) >= 30000:
                # legitimately long coupon-collector loop: drive the simulation through random_numbers=
                rows = inject_rows_for(R, test, rates_w, n_active, nsim)
                if rows is None:
                    continue
                op['mode'] = 'inject'
                op['random_numbers'] = rows
                op['ncol'] = n_active
                ops.append(op)
                continue
            n_per_sim = n_active
        else:
            n_per_sim = n_obs
        if test != 'L' and R.random() < 0.25 and n_per_sim <= 40:
            # the library's own injection seam
            op['mode'] = 'inject'
            w = float_weights(flat_rates(test, rates_w))
            one_minus = float(numpy.nextafter(1.0, 0.0))
            specials = [0.0, one_minus] + [float(x) for x in w if x < 1.0] + \
                [float(numpy.nextafter(x, 0.0)) for x in w if 0 < x <= 1.0]
            rows = []
            for s_ in range(nsim):
                row = []
                for j_ in range(n_per_sim):
                    row.append(R.choice(specials) if R.random() < 0.3 else R.random())
                rows.append(row)
            if R.random() < 0.2:
                # a pool with more rows than simulations: only the first num_simulations rows are consumed
                for _x in range(R.randint(1, 3)):
                    rows.append([R.random() for _ in range(n_per_sim)])
            op['random_numbers'] = rows
            op['ncol'] = n_per_sim
        if op['mode'] == 'rng':
            op['overrides'] = gen_overrides(R, test, rates_w, max(1, n_per_sim) * nsim)
            if test == 'L' and R.random() < 0.3:
                tot = sum(sum(r) for r in rates_w)
                kind = R.choice(('zero', 'zero', 'one', 'large'))
                op['p_overrides'] = {str(R.randrange(nsim)): [kind, {'zero': 0, 'one': 1, 'large': int(3 * tot) + 5}[kind]]}
        ops.append(op)
        if op['mode'] == 'rng' and not op['overrides'] and not op['p_overrides']:
            templates.append(op)
    world.update({'engine': 'rngsim', 'obs': obs, 'cf': cf, 'ops': ops, 'tz': R.choice(TZ_CHOICES),
                  'initial_rng': R.randint(0, 2 ** 31 - 1)})
    # the forecast arrives as a forecast file (cells in world order) instead of as an in-memory array
    world['delivery'] = 'file' if (not quad and not world.get('alt_mags') and R.random() < 0.15) else 'memory'
    # the observed catalog object has a history: it was larger (events outside the region / below the magnitude range),
    # was summarised, and was then cut down in place to exactly the events listed in obs
    if not quad and R.random() < 0.25:
        extra = []
        for k in range(R.randint(1, 3)):
            ev = gen.gen_event(R, region, mags, eid='x%d' % k, start_ms=world['start_ms'], end_ms=world['end_ms'])[0]
            p_out = gen.point_outside(R, region)
            if p_out is not None and R.random() < 0.6:
                ev[3], ev[2] = p_out
                ev.append('outside')
            else:
                ev[5] = gen.dec(mags['edges'][0] - mags['dm'] * R.choice((0.5, 1.0, 2.5)), 6)
                ev.append('low')
            extra.append(ev)
        world['obs_history'] = {'extra': extra, 'warm': R.sample(['magnitude_counts', 'get_magnitudes', 'n_events', 'bbox'],
                                                                  R.randint(0, 3)),
                                'update_stats': R.random() < 0.5, 'copy_first': R.random() < 0.4}
    return world


def alt_world(world):
    """the same forecast with its cells (and rate rows) listed in the order world['alt_perm']"""
    w = dict(world)
    if world.get('alt_mags') and not world.get('alt_perm'):
        w.update(world['alt_mags'])
        return w
    perm = world['alt_perm']
    reg = dict(world['region'])
    if reg['kind'] == 'cart':
        reg['origins'] = [world['region']['origins'][i] for i in perm]
    else:
        reg['quadkeys'] = [world['region']['quadkeys'][i] for i in perm]
    w['region'] = reg
    w['rates'] = [world['rates'][i] for i in perm]
    w['bench'] = [world['bench'][i] for i in perm]
    return w


# --------------------------------------------------------------------------- model of one evaluation

def stat_tol(test, flat_lam, counts_flat):
    """absolute tolerance for a model/library comparison of one statistic.

    The binary likelihood is documented as ln(1 - exp(-rate)); evaluated literally in floats this
    loses about eps/rate in relative accuracy for small rates (cancellation), which is not a
    violation of the definition. The model uses expm1 and allows that much."""
    tol = 1e-9
    if test in ('BS', 'BCL'):
        eps = 2.0 ** -52
        for c, l in zip(counts_flat, flat_lam):
            if c > 0 and l > 0:
                tol += 8 * eps / min(l, 1.0)
    return tol


class StreamMismatch(Exception):
    def __init__(self, sig, detail=None):
        super().__init__(sig)
        self.sig = sig
        self.detail = detail


def stat_of(test, rates2d, flat_lam, counts_flat, n_obs_scale):
    if test in ('L', 'CL'):
        return models.poisson_joint_ll(counts_flat, flat_lam)
    if test in ('S', 'M'):
        n_fore = float(numpy.sum(numpy.array(rates2d, dtype=float)))
        scale = n_obs_scale / n_fore
        lam = [x * scale for x in flat_lam]
        return models.poisson_joint_ll(counts_flat, lam, n_fore=float(int(n_obs_scale)))
    if test in ('BS', 'BCL'):
        return models.binary_joint_ll([c > 0 for c in counts_flat], flat_lam)
    if test == 'BRIER':
        return models.brier_score([c > 0 for c in counts_flat], flat_lam)
    raise ValueError(test)


def predict_poisson(test, rates2d, n_obs, nsim, calls, injected, ctx):
    """-> list (per simulation) of sets of admissible statistic values; raises StreamMismatch"""
    flat = flat_rates(test, rates2d).tolist()
    icdf = models.InverseCDF(flat)
    n_fore = float(numpy.sum(numpy.array(rates2d, dtype=float)))
    out = []
    # The recorded draws are read as two streams - Poisson counts and uniforms - in the order they were drawn: how an
    # implementation batches its calls (one rand(n) per catalog, one rand(nsim, n) for all) is not part of the property.
    U_KINDS = ('rand', 'uniform', 'random_sample')
    p_stream = [(c[1][0], int(v)) for c in calls if c[0] == 'poisson' for v in numpy.asarray(c[2]).ravel().tolist()]
    u_stream = [u for c in calls if c[0] in U_KINDS for u in numpy.asarray(c[2]).ravel().tolist()]
    others = [c[0] for c in calls if c[0] != 'poisson' and c[0] not in U_KINDS]
    if injected is None and others:
        raise StreamMismatch('%s:extra-rng-calls' % test, {'kinds': sorted(set(others))})
    pp = 0
    up = 0
    for s in range(nsim):
        if injected is not None:
            draws = injected[s]
            if test == 'L':
                raise StreamMismatch('inject-with-L')
        else:
            if test == 'L':
                if pp >= len(p_stream):
                    raise StreamMismatch('L:no-poisson-draw', {'sim': s})
                lam, n_ev = p_stream[pp]
                pp += 1
                if not models.close(lam, n_fore, 1e-9, 0):
                    raise StreamMismatch('L:poisson-mean-not-forecast-total', {'lam': lam, 'n_fore': n_fore})
            else:
                n_ev = n_obs
            draws = u_stream[up:up + n_ev]
            up += n_ev
            if len(draws) != n_ev:
                raise StreamMismatch('%s:wrong-number-of-events' % test, {'sim': s, 'drawn': len(draws), 'want': n_ev})
        base = [0] * len(flat)
        amb = []
        for u in draws:
            cands, a = icdf.place(u)
            if a:
                amb.append(cands)
                ctx.count('rare:draw_within_slop_of_boundary')
            else:
                base[cands[0]] += 1
        n_combo = 1
        for a_ in amb:
            n_combo *= len(a_)
        if len(amb) > 4 or n_combo > 64:
            out.append(None)
            ctx.count('ambiguous_simulation_skipped')
            continue
        vals = set()
        for combo in itertools.product(*amb):
            c = list(base)
            for b in combo:
                c[b] += 1
            vals.add(stat_of(test, rates2d, flat, c, n_obs))
        out.append(vals)
    if injected is None and (up != len(u_stream) or pp != len(p_stream)):
        raise StreamMismatch('%s:%s' % (test, 'wrong-number-of-events' if up != len(u_stream) else 'extra-rng-calls'),
                             {'uniforms_used': up, 'uniforms_drawn': len(u_stream), 'poisson_used': pp,
                              'poisson_drawn': len(p_stream)})
    return out


def predict_binary(test, rates2d, n_active, nsim, calls, injected, ctx, max_paths=32):
    """-> list of admissible distributions (each a list of nsim statistics)."""
    flat = flat_rates(test, rates2d).tolist()
    icdf = models.InverseCDF(flat)
    if injected is not None:
        # every injected number is placed (duplicates simply hit the same bin again); ambiguous placements are
        # enumerated per simulation -> ('per-sim', [set of (value, tol)] ...)
        per_sim = []
        for s in range(nsim):
            base = set()
            amb = []
            for u in injected[s]:
                cands, a = icdf.place(u)
                if a:
                    amb.append(cands)
                    ctx.count('rare:draw_within_slop_of_boundary')
                else:
                    base.add(cands[0])
            n_combo = 1
            for a_ in amb:
                n_combo *= len(a_)
            if len(amb) > 4 or n_combo > 64:
                per_sim.append(None)
                continue
            vals = []
            for combo in itertools.product(*amb):
                act = base | set(combo)
                cf = [1 if k in act else 0 for k in range(len(flat))]
                vals.append((stat_of(test, rates2d, flat, cf, None), stat_tol(test, flat, cf)))
            per_sim.append(vals)
        return ('per-sim', per_sim)
    draws = []
    for c in calls:
        if c[0] not in ('uniform', 'rand', 'random_sample'):
            raise StreamMismatch('%s:unexpected-rng-call:%s' % (test, c[0]))
        draws.extend(numpy.asarray(c[2]).ravel().tolist())
    placed = [icdf.place(u) for u in draws]
    n_amb = sum(1 for _, a in placed if a)
    if n_amb:
        ctx.count('rare:draw_within_slop_of_boundary', n_amb)
    results = []
    pruned = [False]

    def walk(pos, sim, active, n_act, dist):
        if len(results) > max_paths:
            pruned[0] = True
            return
        while True:
            if sim == nsim:
                if pos == len(placed):
                    results.append(dist)
                return
            if n_act == n_active:
                cf = [1 if a else 0 for a in active]
                dist = dist + [(stat_of(test, rates2d, flat, cf, None), stat_tol(test, flat, cf))]
                sim += 1
                active = [False] * len(flat)
                n_act = 0
                continue
            if pos >= len(placed):
                return
            cands, a = placed[pos]
            pos += 1
            if len(cands) > 1:
                for b in cands[1:]:
                    act2 = list(active)
                    n2 = n_act
                    if not act2[b]:
                        act2[b] = True
                        n2 += 1
                    walk(pos, sim, act2, n2, dist)
            b = cands[0]
            if not active[b]:
                active = list(active)
                active[b] = True
                n_act += 1
    walk(0, 0, [False] * len(flat), 0, [])
    if pruned[0]:
        # too many admissible placements (draws at boundaries of bins narrower than the float slop): the enumeration was
        # cut short, so no verdict on the values of this distribution
        ctx.count('ambiguous_simulation_skipped')
        return None
    if not results:
        raise StreamMismatch('%s:uniform-stream-does-not-segment-into-simulations' % test,
                             {'draws': len(draws), 'n_active': n_active, 'nsim': nsim})
    return results


# --------------------------------------------------------------------------- execution

def typed_seed(seed, seed_type):
    """the same seed value delivered as another integer type (numpy.random.seed accepts all of them)"""
    if seed is None or seed_type in (None, 'int'):
        return seed
    return numpy.int64(seed) if seed_type == 'int64' else numpy.uint32(seed)


def run_gridded_test(test, fc, obs, nsim, seed, random_numbers, ncol=None, verbose=False):
    from csep.core import poisson_evaluations as pe
    from csep.core import binomial_evaluations as be
    from csep.core import brier_evaluations as br
    f = {'L': pe.likelihood_test, 'CL': pe.conditional_likelihood_test, 'S': pe.spatial_test,
         'M': pe.magnitude_test, 'BS': be.binary_spatial_test, 'BCL': be.binary_conditional_likelihood_test,
         'BRIER': br.brier_score_test}[test]
    kw = dict(num_simulations=nsim, seed=seed, verbose=verbose)
    if random_numbers is not None:
        kw['random_numbers'] = numpy.array(random_numbers, dtype=float).reshape(len(random_numbers), ncol if ncol is not None else -1)
    return f(fc, obs, **kw)


def run_cat_test(test, cf_world, obs_events, seed):
    from csep.core import catalog_evaluations as ce
    from csep.core.forecasts import CatalogForecast
    region = build.make_region(cf_world['region'], cf_world['mags'])
    cats = [build.make_catalog(evs, region=region, catalog_id=i) for i, evs in enumerate(cf_world['cf']['cats'])]
    fc = CatalogForecast(catalogs=cats, n_cat=len(cats), region=region, name='simcf',
                         start_time=build.utc(cf_world['start_ms']), end_time=build.utc(cf_world['end_ms']))
    obs = build.make_catalog(obs_events, region=region, name='obs')
    if test == 'RM':
        return ce.resampled_magnitude_test(fc, obs, seed=seed)
    return ce.MLL_magnitude_test(fc, obs, full_calculation=(test == 'MLLF'), seed=seed)


def _held_view(res):
    v = result_view(res)
    return [v['obs'], v['quantile'], v['dist']]


def execute(scn, ctx, collect_results=None):
    rng = SimRandom(initial_seed=scn.get('initial_rng', 0), budget=HARD_CAP)
    set_tz(scn.get('tz', 'UTC'))
    rng.install()
    try:
        _execute(scn, ctx, rng, collect_results)
    finally:
        rng.remove()
        set_tz('UTC')
    for k, v in rng.fired.items():
        ctx.count('fire:override_' + k, v)


def expected_draws(test, rates2d, n_active, nsim):
    """rough expected number of uniforms of the rejection loops (coupon collector over the n_active most likely bins)"""
    flat = flat_rates(test, rates2d)
    tot = float(flat.sum())
    probs = sorted((float(x) / tot for x in flat if x > 0), reverse=True)[:max(n_active, 0)]
    if len(probs) < n_active or not probs:
        return float('inf')
    rest = 1.0
    exp = 0.0
    for p_ in probs:
        exp += 1.0 / max(p_, 1e-300)        # pessimistic: waiting for each of them in turn
    return nsim * exp


def liveness_budget(test, rates2d, n_active, nsim):
    flat = flat_rates(test, rates2d).tolist()
    icdf = models.InverseCDF(flat)
    q = icdf.quantile_of_kth(n_active)
    if q is None or q <= 0:
        return HARD_CAP
    per = 1000 + 50.0 * n_active / q
    return int(min(HARD_CAP, nsim * per))


def _execute(scn, ctx, rng, collect_results):
    worlds = {'A': scn}
    if scn.get('alt_perm'):
        worlds['B'] = alt_world(scn)
        ctx.count('cfg:second_forecast_with_permuted_cells')
    elif scn.get('alt_mags'):
        worlds['B'] = alt_world(scn)
        ctx.count('cfg:second_forecast_with_other_magnitude_bins')
    store = None
    if scn.get('delivery') == 'file' and scn['region']['kind'] == 'cart':
        from ..seams import SimStore
        store = SimStore()
        ctx.count('cfg:forecast_delivered_as_file')
        try:
            fcs = {k: build.load_world_dat(store.path('world_%s.dat' % k), w) for k, w in worlds.items()}
        finally:
            store.cleanup()
    else:
        fcs = {k: build.make_gridded(w) for k, w in worlds.items()}
    factor = {k: 1 for k in worlds}
    shared_cats = {}

    def cur_rates(k):
        f = factor[k]
        if isinstance(f, list):
            return [[v * f[i] for v in row] for i, row in enumerate(worlds[k]['rates'])]
        return [[v * f for v in row] for row in worlds[k]['rates']]

    def obs_catalog(oi_, k):
        # one catalog object per observed catalog, re-bound to the region of the forecast it is evaluated against
        c = shared_cats.get(oi_)
        if c is None:
            hist = scn.get('obs_history')
            evs_ = list(scn['obs'][oi_]['events'])
            if hist:
                for j_, e_ in enumerate(hist['extra']):
                    evs_.insert(min(len(evs_), 2 * j_), e_[:6])
            c = build.make_catalog(evs_, region=fcs[k].region, name=None if scn.get('unnamed') else 'obs',
                                   as_array=(scn.get('initial_rng', 0) + oi_) % 3 == 0)
            if hist:
                ctx.count('cfg:observed_catalog_with_history')
                if hist.get('copy_first') and any(e_[6] == 'outside' for e_ in hist['extra']):
                    # ... or it is the copy an earlier non-in-place spatial cut returned, summarised and then cut further
                    c = c.filter_spatial(fcs[k].region, in_place=False)
                    call(lambda: c.spatial_counts())
                for w_ in hist['warm']:
                    call({'magnitude_counts': lambda: c.magnitude_counts(), 'get_magnitudes': lambda: c.get_magnitudes(),
                          'n_events': lambda: c.get_number_of_events(), 'bbox': lambda: c.get_bbox()}[w_])
                if any(e_[6] == 'low' for e_ in hist['extra']):
                    c.filter('magnitude >= %r' % worlds[k]['mags']['edges'][0], in_place=True)
                if any(e_[6] == 'outside' for e_ in hist['extra']):
                    c.filter_spatial(fcs[k].region, update_stats=hist['update_stats'], in_place=True)
            shared_cats[oi_] = c
        c.region = fcs[k].region
        return c
    memo = {}           # (test, obs, seed, nsim, fc, factor) -> first result rendering (determinism oracle)
    held = []           # (op index, test, result object, rendering when it was returned): the caller keeps its results

    def check_held(now):
        for oi0, t0, res0, ren0 in held:
            if hexf(_held_view(res0)) != ren0:
                ctx.violate(ctx.focus if ctx.focus in ('C05', 'C16') else 'C06', 'result_stability',
                            '%s:result-held-by-caller-changed-by-later-call' % t0, {'op': oi0, 'changed_after_op': now})
                return False
        return True
    prev = 'start'      # abstract state of the shared generator as the next evaluation finds it
    last_state = ('start',)
    for oi, op in enumerate(scn['ops']):
        if op['op'] == 'TEST':
            sk = 'none' if op['seed'] is None else ('zero' if op['seed'] == 0 else 'nonzero')
            st = (op['test'], sk, op.get('mode', 'rng'), bool(op.get('overrides') or op.get('p_overrides')), prev)
            ctx.state(st)
            ctx.transition(last_state, 'eval', st)
            last_state = st
            prev = 'after-eval-seed-' + sk
        if op['op'] == 'NOISE':
            prev = 'after-noise-' + op['kind']
            ctx.count('fire:noise_' + op['kind'])
            rng.mark(budget=HARD_CAP)
            if op['kind'] == 'draw':
                numpy.random.rand(op['n'])
            else:
                numpy.random.seed(op['seed'])
            continue
        which = op.get('fc', 'A') if op.get('fc', 'A') in worlds else 'A'
        fc = fcs[which]
        rates = cur_rates(which)
        region = worlds[which]['region']
        mags = worlds[which]['mags']
        if op['op'] == 'OTHER':
            from csep.core import poisson_evaluations as pe
            what = op['what']
            ctx.count('fire:other_component_' + what)
            cat = obs_catalog(op['obs'], which)
            rng.mark(budget=HARD_CAP)
            if what == 'SCALE':
                v_ = op['v']
                r = call(fc.scale, numpy.array(v_, dtype=float).reshape(-1, 1) if isinstance(v_, list) else v_)
                if r[0] == 'ok':
                    factor[which] = op['v']
                    rates = cur_rates(which)
                    memo = {}
            elif what in ('T', 'T_scaled'):
                bench = build.make_gridded(worlds[which], rates=worlds[which]['bench'], name='bench')
                r = call(pe.paired_t_test, fc, bench, cat, scale=(what == 'T_scaled'))
            elif what == 'TARGET_scaled':
                r = call(fc.target_event_rates, cat, scale=True)
            elif what == 'N':
                r = call(pe.number_test, fc, cat)
            else:
                r = call(lambda: (fc.spatial_counts(), fc.magnitude_counts(), fc.sum()))
            if r[0] == 'exc':
                ctx.count('other_component_exception:%s:%s' % (what, r[1]))
            if hexf(numpy.array(fc.data)) != hexf(numpy.array(rates, dtype=float)):
                ctx.violate(ctx.focus if ctx.focus in ('C05', 'C16') else 'C06', 'purity',
                            '%s:forecast-rates-modified-by-another-call' % what, {'op': oi, 'factor': factor[which]})
                return
            continue
        test = op['test']
        ctx.count('op:' + test + (':inject' if op.get('mode') == 'inject' else ''))
        obs_events = scn['obs'][op['obs']]['events']
        seed = op['seed']
        # ---------------- catalog-based seeded tests: determinism only (values are C10's) -----------
        if test in CAT_TESTS:
            if not obs_events:
                continue
            rng.mark()
            r = call(run_cat_test, test, scn, obs_events, typed_seed(seed, op.get('seed_type')))
            if r[0] == 'budget':
                ctx.violate('C06', 'liveness', test, {'op': oi})
                return
            if r[0] == 'exc':
                ctx.count('cat_test_exception:' + r[1])
                continue
            v = result_view(r[1])
            ctx.log('cat', oi, test, seed, v['obs'], v['quantile'], v['dist'])
            if seed is not None:
                key = (test, op['obs'], seed)
                ren = hexf([v['obs'], v['quantile'], v['dist']])
                if key in memo and memo[key] != ren:
                    ctx.violate('C06', 'determinism', '%s:seed=%s:depends-on-rng-history' % (
                        test, 'zero' if seed == 0 else 'nonzero'), {'op': oi, 'seed': seed})
                memo.setdefault(key, ren)
                seeded = [c for c in rng.calls if c[0] == 'seed']
                if rng.calls and not seeded:
                    ctx.count('rare:seed_given_but_rng_not_seeded')
            continue
        # ---------------- gridded tests ------------------------------------------------------------------
        obs_cat = obs_catalog(op['obs'], which)
        counts = grid_counts(obs_events, region, mags)
        fcnt = flat_counts(test, counts)
        n_obs = int(fcnt.sum())
        n_active = int((fcnt > 0).sum())
        flat = flat_rates(test, rates)
        zero_rate_event = bool(numpy.any((fcnt > 0) & (flat <= 0)))
        inject = op.get('random_numbers') if op.get('mode') == 'inject' else None
        u_over = {int(k): tuple(v) for k, v in op.get('overrides', {}).items()}
        p_over = {int(k): tuple(v) for k, v in op.get('p_overrides', {}).items()}
        perturbed = bool(u_over or p_over)
        budget = HARD_CAP
        if test in BINARY_TESTS and not perturbed and inject is None:
            budget = liveness_budget(test, rates, n_active, op['nsim'])
        rng.mark(u_over=u_over, p_over=p_over, budget=budget)
        r = call(run_gridded_test, test, fc, obs_cat, op['nsim'], typed_seed(seed, op.get('seed_type')), inject, op.get('ncol'),
                 bool(op.get('verbose')))
        calls = [c for c in rng.calls if c[0] != 'seed']
        n_seed_calls = sum(1 for c in rng.calls if c[0] == 'seed')
        if r[0] == 'budget':
            if budget >= HARD_CAP:
                # the probability-aware budget is above the hard cap (rates spanning many decades make
                # the coupon-collector loop legitimately long) or the stream was perturbed: not judged
                ctx.count('probe:hard_cap_reached_not_judged')
                return
            ctx.violate('C06', 'liveness', '%s:rejection-loop-exceeds-budget' % test,
                        {'op': oi, 'budget': budget, 'n_active': n_active, 'perturbed': perturbed})
            return
        if r[0] == 'exc':
            prop = 'C06'
            ctx.violate(prop, 'exception', '%s:%s%s' % (test, r[1], ':inject' if inject is not None else ''),
                        {'op': oi, 'msg': r[2], 'overrides': op.get('overrides'), 'n_obs': n_obs})
            # the global stream is in an unknown position now but that is legal history: continue
            continue
        v = result_view(r[1])
        if not check_held(oi):
            return
        held.append((oi, test, r[1], hexf(_held_view(r[1]))))
        if collect_results is not None:
            collect_results.append((oi, test, r[1]))
        dist = v['dist']
        ctx.log('test', oi, test, seed, v['obs'], v['quantile'], dist)
        if hexf(numpy.array(fc.data)) != hexf(numpy.array(rates, dtype=float)):
            ctx.violate(ctx.focus if ctx.focus in ('C05', 'C16') else 'C06', 'purity',
                        '%s:forecast-rates-modified' % test, {'op': oi})
            return
        # ---- observed statistic (C05 / C16) ------------------------------------------------------------
        want_obs = stat_of(test, rates, flat.tolist(), fcnt.tolist(), n_obs)
        prop_stat = 'C05' if test in POISSON_TESTS else 'C16'
        if test in POISSON_TESTS and zero_rate_event:
            ctx.count('rare:observed_event_in_zero_rate_bin')
        if not models.close(v['obs'], want_obs, 1e-9, stat_tol(test, flat.tolist(), fcnt.tolist())):
            if test in ('BS', 'BCL') and zero_rate_event:
                sig = '%s:observed:active-zero-rate-bin-not-minus-inf' % test
            elif want_obs == models.NEG_INF or (v['obs'] is not None and numpy.isinf(v['obs'])):
                sig = '%s:observed:minus-inf-rule' % test
            else:
                sig = '%s:observed' % test
            ctx.violate(prop_stat, 'statistic', sig, {'op': oi, 'got': v['obs'], 'want': want_obs, 'n_obs': n_obs})
        # ---- simulated catalogs (C05/C16 value, C06 placement + conservation) ---------------------------
        if len(dist) != op['nsim']:
            ctx.violate(ctx.focus if ctx.focus in ('C05', 'C16') else 'C06', 'simulation_count', '%s:distribution-length' % test,
                        {'op': oi, 'got': len(dist), 'want': op['nsim']})
        elif inject is None and not calls and op['nsim'] > 0 and (n_obs > 0 or test == 'L'):
            ctx.count('unobserved_rng_stream')      # library no longer uses the global entry points
        else:
            try:
                if test in POISSON_TESTS:
                    pred = predict_poisson(test, rates, n_obs, op['nsim'], calls, inject, ctx)
                    for s, (got, cands) in enumerate(zip(dist, pred)):
                        if not numpy.isfinite(got):
                            ctx.violate('C06', 'placement', '%s:simulated-event-in-zero-rate-bin' % test,
                                        {'op': oi, 'sim': s, 'got': got, 'overrides': op.get('overrides')})
                            break
                        if cands is None:
                            continue
                        if not any(models.close(got, c) for c in cands):
                            ctx.violate(prop_stat if not perturbed and inject is None else 'C06',
                                        'simulated_statistic' if not perturbed and inject is None else 'placement',
                                        '%s:simulated-entry' % test,
                                        {'op': oi, 'sim': s, 'got': got, 'want': sorted(cands)[:4],
                                         'overrides': op.get('overrides')})
                            break
                    ctx.count('sims_checked', len(dist))
                else:
                    preds = predict_binary(test, rates, n_active, op['nsim'], calls, inject, ctx)
                    if isinstance(preds, tuple):
                        for si, (got, cands) in enumerate(zip(dist, preds[1])):
                            if cands is None:
                                continue
                            if not any(models.close(got, c[0], 1e-9, c[1]) for c in cands):
                                ctx.violate('C16' if ctx.focus == 'C16' else 'C06',
                                            'simulated_statistic' if ctx.focus == 'C16' else 'placement',
                                            '%s:simulated-entry:injected' % test,
                                            {'op': oi, 'sim': si, 'got': got, 'want': [c[0] for c in cands][:4],
                                             'numbers': inject[si][:8]})
                                break
                        preds = None
                    def same(p):
                        return len(p) == len(dist) and all(models.close(g, w[0], 1e-9, w[1]) for g, w in zip(dist, p))
                    if preds is not None and not any(same(p) for p in preds):
                        # attribute: value formula (C16) when un-perturbed stream, else placement (C06)
                        p0 = preds[-1]
                        first = next((s for s in range(len(dist)) if not models.close(dist[s], p0[s][0], 1e-9, p0[s][1])), 0)
                        ctx.violate('C16' if ctx.focus == 'C16' else 'C06',
                                    'simulated_statistic' if ctx.focus == 'C16' else 'placement',
                                    '%s:simulated-entry' % test,
                                    {'op': oi, 'sim': first, 'got': dist[first], 'want': p0[first][0],
                                     'n_active': n_active, 'overrides': op.get('overrides')})
                    ctx.count('sims_checked', len(dist))
            except StreamMismatch as e:
                ctx.violate('C06', 'conservation', e.sig, {'op': oi, 'detail': e.detail})
        # ---- quantile (on the library's own numbers) ------------------------------------------------------
        q = v['quantile']
        if len(dist) == op['nsim'] and op['nsim'] > 0:
            want_q = sum(1 for x in dist if x <= v['obs']) / op['nsim'] if v['obs'] is not None else None
            if isinstance(q, tuple) or q is None or not (0.0 <= q <= 1.0) or not models.close(q, want_q, 1e-12, 1e-12):
                ctx.violate('C06', 'quantile', '%s:not-fraction-of-simulations-not-exceeding-observed' % test,
                            {'op': oi, 'got': q, 'want': want_q})
        # ---- determinism in (forecast, catalog, seed) ------------------------------------------------------
        if seed is not None and inject is None and not perturbed:
            key = (test, op['obs'], seed, op['nsim'], which, repr(factor[which]))
            ren = hexf([v['obs'], q, dist])
            if key in memo:
                ctx.count('determinism_pairs')
                if memo[key] != ren:
                    ctx.violate('C06', 'determinism', '%s:seed=%s:depends-on-rng-history' % (
                        test, 'zero' if seed == 0 else 'nonzero'), {'op': oi, 'seed': seed})
            memo.setdefault(key, ren)
            if n_seed_calls == 0 and calls:
                ctx.count('rare:seed_given_but_rng_not_seeded')
        if inject is not None:
            key = (test, op['obs'], 'inject', op['nsim'], hexf(inject), which, repr(factor[which]))
            ren = hexf([v['obs'], q, dist])
            if key in memo and memo[key] != ren:
                ctx.violate('C06', 'determinism', '%s:injected-numbers:depends-on-history' % test, {'op': oi})
            memo.setdefault(key, ren)
            if calls:
                ctx.count('rare:rng_used_despite_injection')
        # ---- C16: dependence on activity only -----------------------------------------------------------------
        if test in BINARY_TESTS and 'dup_of' in scn['obs'][op['obs']] and ctx.wants('C16'):
            base_events = scn['obs'][scn['obs'][op['obs']]['dup_of']]['events']
            base_cat = build.make_catalog(base_events, region=fc.region, name='obs')
            rng.mark(budget=HARD_CAP)
            if inject is not None:
                rb = call(run_gridded_test, test, fc, base_cat, op['nsim'], 12345, inject, op.get('ncol'))
            else:
                rb = call(run_gridded_test, test, fc, base_cat, 1, 12345, None)
            if rb[0] == 'ok':
                vb = result_view(rb[1])
                ctx.count('activity_only_pairs')
                if hexf(vb['obs']) != hexf(v['obs']):
                    ctx.violate('C16', 'activity_only', '%s:observed-statistic-depends-on-multiplicity' % test,
                                {'op': oi, 'with_duplicates': v['obs'], 'without': vb['obs']})


# --------------------------------------------------------------------------- shrinking

def shrink_candidates(scn):
    def variant(f):
        s = copy.deepcopy(scn)
        f(s)
        return s
    n_ops = len(scn['ops'])
    if n_ops > 1:
        half = n_ops // 2
        yield variant(lambda s: s.__setitem__('ops', s['ops'][half:]))
        yield variant(lambda s: s.__setitem__('ops', s['ops'][:half]))
        for i in range(n_ops):
            yield variant(lambda s, i=i: s['ops'].pop(i))
    for i, op in enumerate(scn['ops']):
        if op.get('op') != 'TEST':
            continue
        if op.get('nsim', 1) > 1 and op.get('mode') != 'inject':
            yield variant(lambda s, i=i: s['ops'][i].__setitem__('nsim', 1))
            yield variant(lambda s, i=i: s['ops'][i].__setitem__('nsim', max(1, s['ops'][i]['nsim'] // 2)))
        for k in list(op.get('overrides', {})):
            yield variant(lambda s, i=i, k=k: s['ops'][i]['overrides'].pop(k))
        for k in list(op.get('p_overrides', {})):
            yield variant(lambda s, i=i, k=k: s['ops'][i]['p_overrides'].pop(k))
    # drop observed events
    for j, o in enumerate(scn['obs']):
        if 'dup_of' in o:
            continue
        for k in range(len(o['events'])):
            def f(s, j=j, k=k):
                s['obs'][j]['events'].pop(k)
            yield variant(f)
    # drop magnitude bins / cells is engine-specific and changes indices: only simplify rates
    def simplify(s):
        s['rates'] = [[(1.0 if v > 0 else 0.0) for v in row] for row in s['rates']]
    if any(v not in (0.0, 1.0) for row in scn['rates'] for v in row):
        yield variant(simplify)
    if scn.get('cf'):
        if not any(o.get('test') in CAT_TESTS for o in scn['ops'] if o['op'] == 'TEST'):
            yield variant(lambda s: s.__setitem__('cf', None))
    if scn.get('tz') != 'UTC':
        yield variant(lambda s: s.__setitem__('tz', 'UTC'))


class Engine:
    name = 'rngsim'
    generate = staticmethod(generate)
    execute = staticmethod(execute)
    shrink_candidates = staticmethod(shrink_candidates)

    @staticmethod
    def shape(scn):
        return {'ncell': gen.n_cells(scn['region']), 'nm': len(scn['mags']['edges']),
                'zeros': sum(1 for r in scn['rates'] for v in r if v == 0),
                'nobs': [len(o['events']) for o in scn['obs']],
                'ops': [(o['op'], o.get('test'), o.get('seed'), o.get('nsim'), o.get('mode'),
                         sorted(o.get('overrides', {}).items()) if o.get('overrides') else None)
                        for o in scn['ops']]}

    @staticmethod
    def nontrivial(scn, ctx):
        return ctx.counters.get('sims_checked', 0) > 0 or ctx.counters.get('determinism_pairs', 0) > 0

    @staticmethod
    def sample_view(scn):
        return {'cells': gen.n_cells(scn['region']), 'mag_edges': scn['mags']['edges'],
                'rates_first_row': scn['rates'][0], 'zero_rate_bins': sum(1 for r in scn['rates'] for v in r if v == 0),
                'observed_sizes': [len(o['events']) for o in scn['obs']],
                'ops': [({k: o[k] for k in ('test', 'seed', 'nsim', 'mode', 'overrides', 'p_overrides') if k in o}
                         if o['op'] == 'TEST' else o) for o in scn['ops']]}

    @staticmethod
    def rule(focus):
        return ('seeded random histories of gridded consistency tests (Poisson L/CL/S/M, binary S/CL, Brier; for C06 also '
                'the two seeded catalog-based magnitude tests) on one or two forecasts (array or forecast file; second one '
                'with permuted cells or coarser magnitude bins) sharing observed-catalog objects (fresh, or cut down in place '
                'from a larger summarised catalog), interleaved with OTHER ops (scalar / per-cell scale, T-test, target rates, '
                'reads) and NOISE ops on the '
                'process-global RNG and with override scripts that replace individual uniform / Poisson draws by legal '
                'extreme values (0, largest double < 1, cumulative boundaries and their neighbours, zero-rate gaps, '
                'values >= a last cumulative weight that rounds below 1) or inject them through random_numbers=; every '
                'simulated catalog is rebuilt from the recorded draws by an exact-rational inverse CDF. distinct = digest '
                'of (lattice size, zero pattern, observed sizes, op list incl. seeds and overrides); non-trivial = at least '
                'one simulated catalog was reconstructed and compared or one determinism pair was compared; abstract state = '
                '(test, seed kind, rng / injected, perturbed?, what happened to the shared generator just before)')

    @staticmethod
    def components():
        return {'real': ['csep.core.poisson_evaluations', 'csep.core.binomial_evaluations', 'csep.core.brier_evaluations',
                         'csep.core.catalog_evaluations (seeded magnitude tests)', 'csep.core.forecasts.GriddedForecast',
                         'csep.core.catalogs.CSEPCatalog gridding', 'csep.core.regions', 'numpy.random.RandomState (inside the seam)'],
                'stubbed': ['numpy.random.{seed,rand,uniform,poisson,choice,random,...} module attributes -> SimRandom',
                            'stdout', 'TZ environment'],
                'not_run': ['plotting', 'web clients', 'file readers']}

    @staticmethod
    def assumptions(focus):
        return ['observed events are strictly inside cells / bins',
                'a uniform draw within 64*n*2^-53 of an exact cumulative boundary may fall in either adjacent positive-rate bin',
                'binary/Brier scenarios with more active bins than positive-rate bins have no valid simulation and are not generated',
                'liveness budget per simulation = 1000 + 50*n_active/q uniforms (q = normalised rate of the n_active-th most '
                'probable bin), hard cap %d per call' % HARD_CAP]


ENGINE = Engine
