"""Engine D1 `catsim`: call histories on mutable catalogs (property C04).

1-3 actors hold handles to catalogs in one store and issue filter calls in drawn orders,
groupings and in_place modes; after every op every live handle is compared with a reference
model (a python list of tuples filtered by the literal meaning of 'attribute op value').
Perturbations: op order / grouping, repetition, which actor moves, the process time zone.
"""
import copy
import operator

import numpy

from .. import gen, build
from ..kernel import hexf
from ..seams import SimClock, SimStore, set_tz, TZ_CHOICES
from .fcsim import call, _inside

OPS = {'>': operator.gt, '<': operator.lt, '>=': operator.ge, '<=': operator.le, '==': operator.eq}
COL = {'origin_time': 1, 'latitude': 2, 'longitude': 3, 'depth': 4, 'magnitude': 5}
MS_1900 = -2208988800000
MS_2200 = 7258118400000


# --------------------------------------------------------------------------- generation

def _fmt_dt(ms, fraction):
    """'YYYY-mm-dd HH:MM:SS[.f...]' of an integer millisecond (integer arithmetic).

    fraction: False = none (whole seconds only), True / 'us6' = six digits, 'ms3' = three digits (.250),
    'trim' = trailing zeros removed (.25, .5) - all of them legal %f input"""
    if not fraction:
        return gen.time_string(ms, fraction=False).replace('T', ' ')
    s = gen.time_string(ms, fraction=True).replace('T', ' ')
    if fraction == 'ms3':
        return s[:-3]
    if fraction == 'trim':
        t = s.rstrip('0')
        return t + '0' if t.endswith('.') else t
    return s


def gen_statement(R, events, allow_datetime=True):
    """-> (statement string, model triple (column, op, value as float or int ms))"""
    attr = R.choice(('origin_time', 'latitude', 'longitude', 'depth', 'magnitude', 'magnitude',
                     'datetime' if allow_datetime else 'magnitude'))
    op = R.choice(list(OPS))
    col = COL['origin_time' if attr == 'datetime' else attr]
    if events and R.random() < 0.75:
        base = R.choice(events)[col]
    else:
        base = {1: R.randint(MS_1900, MS_2200), 2: R.uniform(-80, 80), 3: R.uniform(-170, 170),
                4: R.choice((0.0, 7.0, 50.0)), 5: R.choice((3.0, 4.77, 5.5, 9.0))}[col]
    if col == 1:
        v = int(base) + R.choice((0, 0, 0, 1, -1, 1000, -500))
        if attr == 'datetime':
            frac = R.choice((True, True, 'ms3', 'trim'))
            if v % 1000 == 0 and R.random() < 0.5:
                frac = False
            return 'datetime %s %s' % (op, _fmt_dt(v, frac)), [1, op, v]
        if R.random() < 0.15:
            return 'origin_time %s %d.5' % (op, v), [1, op, v + 0.5]       # a threshold between two milliseconds
        return 'origin_time %s %d' % (op, v), [1, op, v]
    x = R.random()
    v = float(base)
    if x < 0.15:
        v = float(numpy.nextafter(v, numpy.inf))
    elif x < 0.3:
        v = float(numpy.nextafter(v, -numpy.inf))
    elif x < 0.4:
        v = v + R.choice((0.05, -0.05, 1.0))
    # how the number is written is the caller's business: anything float() reads is a legal threshold
    y = R.random()
    if y < 0.1:
        text = '%.16e' % v                       # exponent notation (what repr gives for tiny / huge values)
    elif y < 0.14:
        v = R.choice((float('inf'), float('-inf')))
        text = repr(v)
    elif y < 0.18 and v >= 0:
        text = '+%r' % v
    elif y < 0.22 and v == int(v) and abs(v) < 1e6:
        text = '%d' % int(v)                     # '5' rather than '5.0'
    else:
        text = repr(v)
    return '%s %s %s' % (attr, op, text), [col, op, v]


def generate(R, tier, focus):
    thorough = tier == 'thorough'
    region = gen.gen_lattice(R, max_cells=12)
    mags = gen.gen_mags(R)
    n_ev = R.choice((0, 1, 2, R.randint(0, 15), R.randint(0, 15 if not thorough else 60)))
    if R.random() < (0.0012 if not thorough else 0.002):
        # a large catalog, just past the block sizes a chunked implementation would plausibly use
        n_ev = R.choice((1025, 4097, 65537, 70001))
    mag_pool = [3.95, 4.0, 4.5, 4.95, 5.0, 5.5, 6.05]
    dep_pool = [0.0, 5.5, 10.0, 33.3, 1e-05, 2.5e-05]
    t_pool = [R.randint(MS_1900, MS_2200) for _ in range(4)] + [R.randint(MS_1900, MS_2200) // 1000 * 1000]
    events = []
    for k in range(n_ev):
        if R.random() < 0.75:
            lon, lat = gen.point_in_cell(R, region, R.randrange(gen.n_cells(region)))
        else:
            lon, lat = gen.point_outside(R, region)
        t = R.choice(t_pool) if R.random() < 0.5 else R.randint(MS_1900, MS_2200)
        events.append(['id%d' % k, t, lat, lon, R.choice(dep_pool), R.choice(mag_pool)])
    n_ops = R.randint(1, 15) if not thorough else R.randint(1, 40)
    if n_ev > 1000:
        n_ops = R.randint(1, 6)
    ops = []
    n_handles = 1
    default_filters = [gen_statement(R, events)[0] for _ in range(R.randint(1, 3))]
    # a second region (a sub-lattice of the first) so that "the region given to the call" matters
    region2 = copy.deepcopy(region)
    xs = [o[0] for o in region['origins']]
    ys = [o[1] for o in region['origins']]
    protected = {(min(xs), min(ys)), (max(xs), max(ys))}      # keep the bounding box (and its rows / columns)
    cand = [i for i, o in enumerate(region2['origins']) if tuple(o) not in protected]
    if cand:
        drop = set(R.sample(cand, R.randint(1, max(1, len(cand) // 2))))
        region2['holes'] = region2['holes'] + [o for i, o in enumerate(region2['origins']) if i in drop]
        region2['origins'] = [o for i, o in enumerate(region2['origins']) if i not in drop]
    if R.random() < 0.3 and len(region2['origins']) > 1:
        # cells switched off by a mask (as a forecast file with flag-0 cells produces): outside the region
        region2['mask'] = [0 if R.random() < 0.3 else 1 for _ in region2['origins']]
        if not any(region2['mask']):
            region2['mask'][0] = 1
    bind_region = R.choice((0, 0, 1, 2))
    history = [(list(default_filters), 'list')]
    for _ in range(n_ops):
        x = R.random()
        h = R.randrange(n_handles)
        actor = R.randint(0, 2)
        if x < 0.4:
            if R.random() < 0.3:
                # the same statements as an earlier call (or as catalog.filters): history-dependent paths
                sts, form = R.choice(history)
                sts = list(sts)
                k = len(sts)
                if k > 1 and form == 'str':
                    form = 'list'
            else:
                k = R.randint(1, 4) if R.random() > 0.07 else 0       # an empty list of statements keeps everything
                sts = [gen_statement(R, events)[0] for _ in range(k)]
                form = R.choice(('list', 'tuple', 'str')) if k == 1 else R.choice(('list', 'tuple'))
                if k == 1 and R.random() < 0.6:
                    form = 'str'
                history.append((list(sts), form))
            inp = R.random() < 0.5
            ops.append({'op': 'FILTER', 'h': h, 'stmts': sts, 'form': form, 'in_place': inp, 'actor': actor})
            if not inp:
                n_handles += 1
        elif x < 0.5:
            inp = R.random() < 0.5
            ops.append({'op': 'FILTER_SPATIAL', 'h': h, 'in_place': inp, 'actor': actor,
                        'region_arg': R.choice((0, 1, 1, 2, 2)), 'update_stats': R.random() < 0.3})
            if not inp:
                n_handles += 1
        elif x < 0.58:
            ops.append({'op': 'FILTER_DEFAULT', 'h': h, 'actor': actor})
        elif x < 0.7:
            k = R.randint(2, 4)
            sts = [gen_statement(R, events)[0] for _ in range(k)]
            ops.append({'op': 'REGROUP', 'h': h, 'stmts': sts, 'perm_seed': R.randint(0, 10 ** 6), 'actor': actor})
        elif x < 0.78:
            ops.append({'op': 'REPEAT', 'h': h, 'actor': actor})
        elif x < 0.88:
            # datetime statement vs origin-time statement for the same instant
            ms = R.choice(events)[1] if events and R.random() < 0.8 else R.randint(MS_1900, MS_2200)
            ms += R.choice((0, 0, 1, -1))
            frac = False if (ms % 1000 == 0 and R.random() < 0.5) else R.choice((True, True, 'ms3', 'trim'))
            ops.append({'op': 'DATETIME_EQUIV', 'h': h, 'oper': R.choice(list(OPS)), 'ms': ms, 'fraction': frac,
                        'form': R.choice(('str', 'list')), 'actor': actor})
        elif x < 0.94:
            ops.append({'op': 'TZ_SWITCH', 'tz': R.choice(TZ_CHOICES), 'actor': actor})
        else:
            k = R.randint(1, 3)
            ops.append({'op': 'LOAD_APPLY', 'h': h, 'stmts': [gen_statement(R, events)[0] for _ in range(k)],
                        'with_region': R.random() < 0.6, 'actor': actor})
    if n_ev > 1000:
        # a large catalog is expensive: make sure it meets both kinds of filter
        ops.insert(0, {'op': 'FILTER', 'h': 0, 'stmts': [gen_statement(R, events)[0]], 'form': 'list', 'in_place': True, 'actor': 0})
        ops.insert(0, {'op': 'FILTER_SPATIAL', 'h': 0, 'in_place': True, 'actor': 0, 'region_arg': R.choice((1, 2)),
                       'update_stats': False})
    return {'engine': 'catsim', 'region': region, 'region2': region2, 'bind_region': bind_region,
            'mags': mags, 'events': events, 'ops': ops,
            'default_filters': default_filters, 'tz': R.choice(TZ_CHOICES), 'clock_us': R.randint(0, 4 * 10 ** 15)}


# --------------------------------------------------------------------------- model

def parse_statement(st):
    """literal meaning of a statement -> (column, op, numeric value)"""
    parts = st.split(' ')
    if parts[0] == 'datetime':
        import datetime
        s = parts[2] + ' ' + parts[3]
        fmt = '%Y-%m-%d %H:%M:%S.%f' if '.' in s else '%Y-%m-%d %H:%M:%S'
        d = datetime.datetime.strptime(s, fmt)
        delta = d - datetime.datetime(1970, 1, 1)
        ms = (delta.days * 86400 + delta.seconds) * 1000 + delta.microseconds // 1000
        return 1, parts[1], float(ms)
    return COL[parts[0]], parts[1], float(parts[2])


def model_apply(rows, stmts):
    out = rows
    for st in stmts:
        col, op, val = parse_statement(st)
        out = [r for r in out if OPS[op](float(r[col]), val)]
    return out


def model_rows(events):
    return [(e[0].encode(), int(e[1]), float(e[2]), float(e[3]), float(e[4]), float(e[5])) for e in events]


def rows_of(cat):
    if getattr(cat, 'catalog', None) is None:
        return []
    return [tuple(r) for r in cat.catalog.tolist()]


def same_rows(a, b):
    return hexf([list(x) for x in a]) == hexf([list(x) for x in b])


# --------------------------------------------------------------------------- execution

def execute(scn, ctx):
    store = SimStore()
    clock = SimClock(scn.get('clock_us', 0))
    set_tz(scn.get('tz', 'UTC'))
    store.install()
    clock.install()
    try:
        _execute(scn, ctx, store, clock)
    finally:
        clock.remove()
        store.remove()
        store.cleanup()
        set_tz('UTC')


def _stmts_arg(stmts, form):
    if form == 'str':
        return stmts[0]
    if form == 'tuple':
        return tuple(stmts)
    return list(stmts)


def _execute(scn, ctx, store, clock):
    import csep
    region_lit = scn['region']
    region = build.make_region(region_lit, scn['mags'])
    regions_lit = {1: scn['region'], 2: scn.get('region2', scn['region'])}
    regions = {1: region, 2: build.make_region(regions_lit[2], scn['mags'])}
    bind = scn.get('bind_region', 0)
    clock.auto_step_us = 999
    base_rows = model_rows(scn['events'])

    def fresh(rows=None):
        evs = scn['events'] if rows is None else None
        if rows is None:
            return build.make_catalog(evs, region=regions.get(bind), name='simcat',
                                      filters=stmts_arg(list(scn['default_filters']), 'list'))
        return build.make_catalog([list(r) for r in rows], region=None, name='simcat')

    def clone(rows):
        from csep.core.catalogs import CSEPCatalog
        data = [(r[0], r[1], r[2], r[3], r[4], r[5]) for r in rows]
        return CSEPCatalog(data=data, name='twin')

    arg_pool = {}          # literal statements -> the one list / tuple object handed to the library for them

    def stmts_arg(stmts, form):
        if form == 'str':
            return stmts[0]
        key = (form, tuple(stmts))
        if key not in arg_pool:
            arg_pool[key] = tuple(stmts) if form == 'tuple' else list(stmts)
        return arg_pool[key]

    def args_untouched(oi_):
        for (form, lit), obj in arg_pool.items():
            if list(obj) != list(lit):
                ctx.violate('C04', 'argument_mutated', 'statement-list-passed-by-the-caller-was-modified',
                            {'op': oi_, 'passed': list(lit), 'now': list(obj)})
                return False
        return True

    handles = [fresh()]
    models_ = [list(base_rows)]
    bound = [bind]                 # which region each handle has bound (0 = none)
    last_call = [None]
    if not same_rows(rows_of(handles[0]), models_[0]):
        ctx.count('construction_mismatch')       # construction / dtype limits are C14's business
        return

    def check_all(oi, label):
        for hi, (h, m) in enumerate(zip(handles, models_)):
            got = rows_of(h)
            if not same_rows(got, m):
                if len(got) != len(m):
                    sig = 'too-many-kept' if len(got) > len(m) else 'too-few-kept'
                elif sorted(map(repr, got)) == sorted(map(repr, m)):
                    sig = 'order-changed'
                else:
                    sig = 'fields-or-selection-changed'
                ctx.violate('C04', 'selection', '%s:%s' % (label, sig),
                            {'op': oi, 'handle': hi, 'got_n': len(got), 'want_n': len(m),
                             'got_ids': [g[0] for g in got][:12], 'want_ids': [w[0] for w in m][:12]})
                return False
        return True

    def in_region_rows(rows, which=1):
        return [r for r in rows if _inside([None, None, r[2], r[3]], regions_lit[which])]

    for oi, op in enumerate(scn['ops']):
        kind = op['op']
        ctx.count('op:' + kind)
        if kind == 'TZ_SWITCH':
            set_tz(op['tz'])
            ctx.count('fire:tz_switch')
            continue
        hi = op.get('h', 0)
        if hi >= len(handles):
            continue
        h = handles[hi]
        m = models_[hi]
        before_fp = build.cat_fingerprint(h)
        label = kind
        if kind == 'FILTER':
            arg = stmts_arg(op['stmts'], op['form'])
            label = 'FILTER:%s:%s' % (op['form'], 'in_place' if op['in_place'] else 'copy')
            r = call(h.filter, arg, in_place=op['in_place'])
            if r[0] != 'ok':
                ctx.violate('C04', 'exception', '%s:%s' % (label, r[1]), {'op': oi, 'stmts': op['stmts'], 'msg': r[2]})
                return
            want = model_apply(m, op['stmts'])
            if any(s.startswith('datetime') for s in op['stmts']):
                ctx.count('rare:datetime_statement')
            if len(want) != len(m):
                ctx.count('rare:filter_removed_events')
            if any(parse_statement(s)[2] == float(row[parse_statement(s)[0]]) for s in op['stmts'] for row in m):
                ctx.count('rare:threshold_equals_event_value')
            if op['in_place']:
                if r[1] is not h:
                    ctx.violate('C04', 'in_place', 'in_place=True-returns-other-object', {'op': oi})
                models_[hi] = want
                last_call[0] = (hi, 'filter', arg)
            else:
                if r[1] is h:
                    ctx.violate('C04', 'in_place', 'in_place=False-returns-receiver', {'op': oi})
                    return
                if build.cat_fingerprint(h) != before_fp:
                    ctx.violate('C04', 'in_place', 'in_place=False-modified-original', {'op': oi, 'label': label})
                    return
                handles.append(r[1])
                models_.append(want)
                bound.append(bound[hi])
                last_call[0] = (len(handles) - 1, 'filter', arg)
        elif kind == 'FILTER_DEFAULT':
            if hi != 0 and not getattr(h, 'filters', None):
                continue
            stmts = getattr(h, 'filters', None)
            if not stmts:
                continue
            stmts_l = [stmts] if isinstance(stmts, str) else list(stmts)
            r = call(h.filter)
            if r[0] != 'ok':
                ctx.violate('C04', 'exception', 'FILTER_DEFAULT:%s' % r[1], {'op': oi, 'msg': r[2]})
                return
            models_[hi] = model_apply(m, stmts_l)
            last_call[0] = (hi, 'filter', None)
        elif kind == 'FILTER_SPATIAL':
            label = 'FILTER_SPATIAL:%s' % ('in_place' if op['in_place'] else 'copy')
            ra = op['region_arg']
            ra = {True: 1, False: 0}.get(ra, ra) if isinstance(ra, bool) else ra
            if ra == 0 and bound[hi] == 0:
                ra = 1
            use = ra if ra else bound[hi]
            if ra and bound[hi] and ra != bound[hi]:
                ctx.count('rare:spatial_filter_with_other_region_than_bound')
            us = bool(op.get('update_stats'))
            if ra:
                r = call(h.filter_spatial, regions[ra], in_place=op['in_place'], update_stats=us)
            else:
                r = call(h.filter_spatial, in_place=op['in_place'], update_stats=us)
            if r[0] != 'ok':
                ctx.violate('C04', 'exception', '%s:%s' % (label, r[1]), {'op': oi, 'msg': r[2]})
                return
            want = in_region_rows(m, use)
            if len(want) != len(m):
                ctx.count('rare:spatial_filter_removed_events')
            # the receiver has the region of the call bound afterwards (documented: "update the region")
            bound[hi] = use
            if op['in_place']:
                if r[1] is not h:
                    ctx.violate('C04', 'in_place', 'spatial:in_place=True-returns-other-object', {'op': oi})
                models_[hi] = want
                last_call[0] = (hi, 'spatial', use)
            else:
                if r[1] is h:
                    ctx.violate('C04', 'in_place', 'spatial:in_place=False-returns-receiver', {'op': oi})
                    return
                if build.cat_fingerprint(h) != before_fp:
                    ctx.violate('C04', 'in_place', 'spatial:in_place=False-modified-original', {'op': oi})
                    return
                handles.append(r[1])
                models_.append(want)
                bound.append(use)
                last_call[0] = (len(handles) - 1, 'spatial', use)
        elif kind == 'REPEAT':
            lc = last_call[0]
            if lc is None or lc[0] >= len(handles):
                continue
            t = handles[lc[0]]
            fp = build.cat_fingerprint(t)
            if lc[1] == 'filter':
                r = call(t.filter, lc[2]) if lc[2] is not None else call(t.filter)
            else:
                r = call(t.filter_spatial, regions[lc[2] or 1])
            if r[0] != 'ok':
                ctx.violate('C04', 'exception', 'REPEAT:%s' % r[1], {'op': oi, 'msg': r[2]})
                return
            ctx.count('repeat_checked')
            if build.cat_fingerprint(t) != fp:
                ctx.violate('C04', 'idempotence', 're-applying-%s-changes-catalog' % lc[1], {'op': oi})
                return
        elif kind == 'REGROUP':
            import random
            P = random.Random(op['perm_seed'])
            sts = list(op['stmts'])
            variants = []
            variants.append(('one-list', [('list', sts)]))
            sh = list(sts)
            P.shuffle(sh)
            variants.append(('shuffled-list', [('list', sh)]))
            variants.append(('singles-str', [('str', [s]) for s in sts]))
            sh2 = list(sts)
            P.shuffle(sh2)
            variants.append(('singles-shuffled', [('list', [s]) for s in sh2]))
            cut = P.randint(1, len(sts) - 1)
            variants.append(('two-lists', [('tuple', sts[:cut]), ('list', sts[cut:])]))
            want = model_apply(m, sts)
            outs = []
            for vname, steps in variants:
                t = clone(m)
                ok = True
                for form, ss in steps:
                    r = call(t.filter, _stmts_arg(ss, form))
                    if r[0] != 'ok':
                        ctx.violate('C04', 'exception', 'REGROUP:%s:%s' % (vname, r[1]), {'op': oi, 'msg': r[2]})
                        return
                outs.append((vname, rows_of(t)))
            ctx.count('regroup_checked')
            for vname, got in outs:
                if not same_rows(got, want):
                    ctx.violate('C04', 'grouping', 'variant-%s-differs' % vname,
                                {'op': oi, 'stmts': sts, 'got_n': len(got), 'want_n': len(want)})
                    return
        elif kind == 'DATETIME_EQUIV':
            ms = op['ms']
            dst = 'datetime %s %s' % (op['oper'], _fmt_dt(ms, op['fraction']))
            ost = 'origin_time %s %d' % (op['oper'], ms)
            a, b = clone(m), clone(m)
            ra = call(a.filter, dst if op['form'] == 'str' else [dst])
            rb = call(b.filter, ost if op['form'] == 'str' else [ost])
            if ra[0] != 'ok' or rb[0] != 'ok':
                bad = ra if ra[0] != 'ok' else rb
                ctx.violate('C04', 'exception', 'DATETIME_EQUIV:%s' % bad[1], {'op': oi, 'stmt': dst, 'msg': bad[2]})
                return
            ctx.count('datetime_equiv_checked')
            if any(r[1] == ms for r in m):
                ctx.count('rare:datetime_threshold_equals_event_time')
            if not same_rows(rows_of(a), rows_of(b)):
                ctx.violate('C04', 'datetime_equivalence', 'datetime-vs-origin_time:%s' % op['oper'],
                            {'op': oi, 'datetime_stmt': dst, 'origin_stmt': ost,
                             'datetime_kept': len(rows_of(a)), 'origin_kept': len(rows_of(b))})
                return
        elif kind == 'LOAD_APPLY':
            # file written by the simulator, loaded twice: raw, and with apply_filters=True
            path = store.path('cat_%d.csv' % oi)
            lines = ['lon,lat,mag,time_string,depth,catalog_id,event_id']
            for r_ in m:
                lines.append('%r,%r,%r,%s,%r,%d,%s' % (r_[3], r_[2], r_[5], gen.time_string(r_[1]), r_[4], 7,
                                                      r_[0].decode()))
            with open(path, 'w') as f:
                f.write('\n'.join(lines) + '\n')
            raw = call(csep.load_catalog, path)
            kw = {'filters': list(op['stmts']), 'apply_filters': True}
            if op['with_region']:
                kw['region'] = region
            fl = call(csep.load_catalog, path, **kw)
            if raw[0] != 'ok':
                ctx.count('load_raw_failed:' + raw[1])      # decoding is C14/C19's business
                continue
            if fl[0] != 'ok':
                ctx.violate('C04', 'exception', 'LOAD_APPLY:%s' % fl[1], {'op': oi, 'msg': fl[2]})
                return
            want = model_apply(rows_of(raw[1]), op['stmts'])
            if op['with_region']:
                want = in_region_rows(want)
            ctx.count('load_apply_checked')
            if not same_rows(rows_of(fl[1]), want):
                ctx.violate('C04', 'load_apply', 'load_catalog(apply_filters=True)-differs-from-filtering-loaded',
                            {'op': oi, 'got_n': len(rows_of(fl[1])), 'want_n': len(want)})
                return
        ctx.log('op', oi, label, [[r[0] for r in rows_of(x)] for x in handles])
        if not check_all(oi, label):
            return
        if not args_untouched(oi):
            return
        ctx.state((len(handles), tuple(min(3, len(x)) for x in models_[:4])))
    ctx.sim_time_ms += (clock.max_us - clock.min_us) // 1000


# --------------------------------------------------------------------------- shrinking

def shrink_candidates(scn):
    def variant(f):
        s = copy.deepcopy(scn)
        f(s)
        return s
    n = len(scn['ops'])
    if n > 1:
        yield variant(lambda s: s.__setitem__('ops', s['ops'][n // 2:]))
        yield variant(lambda s: s.__setitem__('ops', s['ops'][:n // 2]))
        for i in range(n):
            yield variant(lambda s, i=i: s['ops'].pop(i))
    for k in range(len(scn['events'])):
        yield variant(lambda s, k=k: s['events'].pop(k))
    for i, op in enumerate(scn['ops']):
        if 'stmts' in op and len(op['stmts']) > (2 if op['op'] == 'REGROUP' else 1):
            for k in range(len(op['stmts'])):
                yield variant(lambda s, i=i, k=k: s['ops'][i]['stmts'].pop(k))
    if scn.get('tz') != 'UTC':
        yield variant(lambda s: s.__setitem__('tz', 'UTC'))


class Engine:
    name = 'catsim'
    generate = staticmethod(generate)
    execute = staticmethod(execute)
    shrink_candidates = staticmethod(shrink_candidates)

    @staticmethod
    def shape(scn):
        return {'n': len(scn['events']), 'ops': [(o['op'], o.get('h'), o.get('form'), o.get('in_place'),
                                                  tuple(o.get('stmts', ()))) for o in scn['ops']]}

    @staticmethod
    def nontrivial(scn, ctx):
        return len(scn['events']) > 0 and len(scn['ops']) >= 2

    @staticmethod
    def sample_view(scn):
        return {'events': len(scn['events']), 'first_events': scn['events'][:2], 'tz': scn['tz'],
                'ops': [{k: v for k, v in o.items() if k != 'actor'} for o in scn['ops'][:8]]}

    @staticmethod
    def rule(focus):
        return ('seeded histories of filter calls by 1-3 actors on shared catalog handles: FILTER (string / list / tuple, '
                'in_place on/off), FILTER_DEFAULT (catalog.filters), FILTER_SPATIAL, REGROUP (same statements in 5 orders / '
                'groupings on twins), REPEAT (same call again), DATETIME_EQUIV (datetime statement vs origin_time statement '
                'for one instant), LOAD_APPLY (csep.load_catalog(apply_filters=True)), TZ_SWITCH; thresholds are event values, '
                'their +-1-ulp neighbours and values between, written in every form float() reads (repr, exponent notation, '
                "'+x', 'inf', integers without a point); instants uniform over 1900..2200 at every millisecond phase; "
                'distinct = digest of (number of events, op list incl. statements); non-trivial = >= 1 event and >= 2 ops')

    @staticmethod
    def components():
        return {'real': ['csep.core.catalogs.CSEPCatalog.filter / filter_spatial', 'csep.load_catalog + readers.csep_ascii',
                         'csep.utils.time_utils', 'csep.core.regions.CartesianGrid2D.get_masked', 'numpy'],
                'stubbed': ['wall clock (SimClock)', 'open() proxy', 'TZ environment', 'stdout'],
                'not_run': ['evaluations', 'plotting', 'web clients']}

    @staticmethod
    def assumptions(focus):
        return ['events are strictly inside cells or clearly outside the region (C01 edge semantics are not re-judged)',
                'the reference applies float(attribute) op float(value) literally; datetime instants by integer arithmetic',
                'LOAD_APPLY is judged relative to the same file loaded without filters (decoding is C14/C19)']


ENGINE = Engine
