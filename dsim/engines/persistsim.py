"""Engine C `persistsim`: write -> close -> read histories through storage with a simulated clock.

C14: catalogs are made at simulated instants (the construction instant is serialised by the JSON
form), saved as CSEP ASCII / JSON / dict / DataFrame, reloaded, re-saved (second generation),
overwritten - under clock jumps and time-zone switches. Model = logical catalog per path.
C18: evaluation results produced by engine A and engine B runs (infinite, NaN and None
statistics arise naturally there) are written with csep.write_json, reloaded with
csep.load_evaluation_result and compared field by field; regions go through to_dict/from_dict.
"""
import copy
import math
import random

import numpy

from .. import gen, build, models
from ..kernel import hexf, splitmix64
from ..seams import SimClock, SimStore, SimRandom, set_tz, TZ_CHOICES
from .fcsim import call, result_view
from . import fcsim, rngsim

MS_1900 = -2208988800000
MS_2200 = 7258118400000
ID_ALPHABET = 'abcXYZ0189 ,";:_-+/.#\'()[]|'
FORMATS = ('ascii', 'json', 'dict', 'df')


# --------------------------------------------------------------------------- generation (C14)

def gen_id(R, k):
    x = R.random()
    if x < 0.3:
        return 'ev%d' % k
    if x < 0.42:
        # ids that other software reads as something else than text
        return R.choice(('NA', 'N/A', 'null', 'NULL', 'None', 'nan', 'NaN', 'inf', 'true', 'False', '0', '007', '1e5', '-',
                         'n/a', '#N/A', '<NA>', '1.0', '-1', '0x1f'))
    n = R.randint(1, 12)
    s = ''.join(R.choice(ID_ALPHABET) for _ in range(n))
    if not s.strip():
        s = 'x' + s
    return s


def gen_float(R, lo, hi):
    x = R.random()
    if x < 0.3:
        return float(round(R.uniform(lo, hi), R.choice((0, 1, 2, 3))))       # shortest-repr decimals
    if x < 0.4:
        return float(R.choice((lo, hi, 0.0, -0.0)))
    v = R.uniform(lo, hi)                                                      # 17-digit double
    if R.random() < 0.2:
        v = float(numpy.nextafter(v, 0))
    return v


def gen_catalog14(R, region, mags, inside_only, n_max, mixed=False):
    n = R.choice((0, 0, 1, 2, R.randint(0, n_max), R.randint(0, n_max)))
    evs = []
    for k in range(n):
        if mixed:
            # clearly inside a cell or clearly outside the region (for a later spatial filter)
            t = R.randint(MS_1900, MS_2200)
            if R.random() < 0.6:
                lon, lat = gen.point_in_cell(R, region, R.randrange(gen.n_cells(region)))
            else:
                lon, lat = gen.point_outside(R, region)
            evs.append([gen_id(R, k), t, lat, lon, gen_float(R, -5.0, 700.0),
                        gen.mag_in_bin(R, mags, R.randrange(len(mags['edges'])))])
            continue
        t = R.randint(MS_1900, MS_2200)
        if R.random() < 0.25:
            t -= t % 1000                      # whole second: time string without fraction
        if R.random() < 0.1:
            t = R.choice((0, -1, 1, -1000, 999, 86400000 * 366))
        if inside_only:
            lon, lat = gen.point_in_cell(R, region, R.randrange(gen.n_cells(region)))
            mag = gen.mag_in_bin(R, mags, R.randrange(len(mags['edges'])))
        else:
            lon, lat = gen_float(R, -180.0, 180.0), gen_float(R, -90.0, 90.0)
            mag = gen_float(R, -2.0, 10.0)
        evs.append([gen_id(R, k), t, lat, lon, gen_float(R, -5.0, 700.0), mag])
    return evs


def generate(R, tier, focus):
    if focus == 'C18':
        return generate18(R, tier)
    thorough = tier == 'thorough'
    region = gen.gen_lattice(R, max_cells=9, allow_holes=R.random() < 0.6)
    twin = gen.lattice_twin(R, region)
    mags = gen.gen_mags(R)
    n_max = 12 if not thorough else 60
    cats = []
    for i in range(R.randint(1, 3)):
        with_region = R.random() < 0.4
        mixed = (not with_region) and R.random() < 0.3
        cats.append({'events': gen_catalog14(R, region, mags, with_region, n_max, mixed=mixed), 'with_region': with_region,
                     'mixed': mixed,
                     'catalog_id': R.choice((None, 0, 1, 7, 12345, 255, 65536, 2 ** 31, 2024063012, 2 ** 53 - 1)),
                     'name': R.choice((None, 'cat', 'my catalog, v2'))})
    ops = []
    n_ops = R.randint(1, 10) if not thorough else R.randint(1, 25)
    for _ in range(n_ops):
        x = R.random()
        if x < 0.15:
            kind = R.choice(('forward', 'backward', 'zero_usec', 'far'))
            ops.append({'op': 'CLOCK_JUMP', 'kind': kind, 'arg': R.randint(1, 10 ** 12),
                        'to_us': R.randint(MS_1900, MS_2200) * 1000 + R.choice((0, 0, 1, 999999, R.randint(0, 999999)))})
        elif x < 0.25:
            ops.append({'op': 'TZ_SWITCH', 'tz': R.choice(TZ_CHOICES)})
        elif x < 0.32 and twin is not None:
            # a catalog on a look-alike region (same spacing, cell count and extent, other cells) goes through dict / JSON
            ops.append({'op': 'TWIN', 'fmt': R.choice(('dict', 'json')), 'n': R.randint(0, 3)})
        elif x < 0.42:
            # the live catalog object is changed in place between round trips (optionally after its dict form was built)
            ci = R.randrange(len(cats))
            how = 'spatial' if (cats[ci]['mixed'] or cats[ci]['with_region']) and R.random() < 0.6 else \
                R.choice(('filter', 'filter', 'filter_copy', 'poke'))
            thr = R.choice([e[5] for e in cats[ci]['events']] or [5.0])
            ops.append({'op': 'MUTATE', 'cat': ci, 'how': how, 'stmt': 'magnitude %s %r' % (R.choice(('>=', '<', '>')), thr),
                        'warm': R.choice(('none', 'to_dict', 'write_json', 'to_dataframe'))})
        elif x < 0.47:
            # another component of the same process reads a file of its own format through the loader= argument
            ops.append({'op': 'CUSTOM_LOADER', 'n': R.randint(0, 3), 'type': R.choice(('csep-csv', 'csep-csv', 'zmap', None))})
        elif x < 0.85:
            chain = [R.choice(FORMATS)]
            while R.random() < 0.35 and len(chain) < 3:
                chain.append(R.choice(FORMATS))                 # RESAVE: second / third generation
            ops.append({'op': 'ROUNDTRIP', 'cat': R.randrange(len(cats)), 'chain': chain,
                        'header': R.random() < 0.7, 'append_new': R.random() < 0.2,
                        'with_datetime': R.random() < 0.3, 'remake': R.random() < 0.5,
                        'df_cols': R.choice((0, 0, R.randint(1, 10 ** 6)))})
        else:
            ops.append({'op': 'OVERWRITE', 'first': R.randrange(len(cats)), 'second': R.randrange(len(cats)),
                        'fmt': R.choice(('ascii', 'json', 'ascii_append')), 'header': R.random() < 0.7})
    probe = None
    if R.random() < 0.15:
        probe = {'kind': R.choice(('enospc', 'torn_file', 'torn_file')), 'fmt': R.choice(('ascii', 'json')),
                 'cat': R.randrange(len(cats)), 'cut': R.random()}
    return {'engine': 'persistsim', 'kind': 'C14', 'region': region, 'region_twin': twin, 'mags': mags, 'cats': cats, 'ops': ops, 'probe': probe,
            'tz': R.choice(TZ_CHOICES),
            'clock_us': R.choice((R.randint(0, 4 * 10 ** 15), R.randint(10 ** 9, 2 * 10 ** 9) * 10 ** 6))}


def generate18(R, tier):
    sub = R.choice(('fcsim', 'fcsim', 'rngsim', 'rngsim', 'gridded_misc'))
    R2 = random.Random(R.getrandbits(64))
    if sub == 'fcsim':
        inner = fcsim.generate(R2, tier, 'C18')
    elif sub == 'rngsim':
        inner = rngsim.generate(R2, tier, 'C18')
    else:
        inner = rngsim.generate(R2, tier, 'C18')
        inner['ops'] = []
    if sub != 'fcsim':
        # unusual but legal numeric types of the producers' inputs: integer magnitude edges, single-precision rates
        if R.random() < 0.15:
            n_ = len(inner['mags']['edges'])
            inner['mags'] = {'dm': 1.0, 'edges': [float(4 + k) for k in range(n_)], 'int': True}
            for o in inner['obs']:
                for e in o['events']:
                    e[5] = float(4 + min(n_ - 1, max(0, int(e[5]) % n_))) + 0.5
        if R.random() < 0.1:
            inner['rates_dtype'] = 'float32'
    region = gen.gen_lattice(R, max_cells=12, allow_holes=R.random() < 0.5)
    twin18 = gen.lattice_twin(R, region)
    if R.random() < 0.4:
        twin18 = None
        # lattices whose anchor / spacing are not short decimals ("for all Cartesian lattices")
        dh = R.choice((1.0 / 3.0, 0.1, 0.3, 1.0 / 7.0, 0.25, 1.0))
        # (incl. lattices in the 0..360 longitude convention, across the date line)
        ax = R.choice((1.0 / 7.0, -2.0 / 3.0, 0.1 + 1.0 / 3.0, 100.0 / 7.0, -0.7, 33.3, 178.0, 200.5, 355.25))
        ay = R.choice((1.0 / 7.0, -2.0 / 3.0, 0.2 + 1.0 / 3.0, -100.0 / 7.0, 0.3, -44.4))
        nx, ny = R.randint(1, 4), R.randint(1, 3)
        cells = [[ax + i * dh, ay + j * dh] for i in range(nx) for j in range(ny)]
        R.shuffle(cells)
        region = {'kind': 'cart', 'dh': dh, 'origins': cells, 'holes': [], 'odd': True,
                  'bbox': [ax, ay, ax + nx * dh, ay + ny * dh]}
    return {'engine': 'persistsim', 'kind': 'C18', 'sub': sub, 'inner': inner, 'region18': region, 'twin18': twin18,
            'mags18': gen.gen_mags(R), 'backup': R.random() < 0.3, 'calibration': R.random() < 0.4,
            'probe_seed': R.randint(0, 10 ** 9), 'tz': R.choice(TZ_CHOICES), 'clock_us': R.randint(0, 4 * 10 ** 15),
            'same_instant': R.random() < 0.5, 'scribble': R.random() < 0.2,
            'perm_prelude': R.choice((0, 0, R.randint(1, 10 ** 6)))}


# --------------------------------------------------------------------------- execution

def execute(scn, ctx):
    store = SimStore()
    clock = SimClock(scn.get('clock_us', 0))
    set_tz(scn.get('tz', 'UTC'))
    store.install()
    clock.install()
    try:
        if scn['kind'] == 'C14':
            _execute14(scn, ctx, store, clock)
        else:
            _execute18(scn, ctx, store, clock)
    finally:
        clock.remove()
        store.remove()
        store.cleanup()
        set_tz('UTC')
    ctx.sim_time_ms += (clock.max_us - clock.min_us) // 1000
    if store.order_errors:
        ctx.violate(scn['kind'], 'storage_order', 'file-read-while-still-open-for-writing', {'n': len(store.order_errors)})


def model_rows(events):
    return [(e[0].encode(), int(e[1]), float(e[2]), float(e[3]), float(e[4]), float(e[5])) for e in events]


def rows_of(cat):
    if getattr(cat, 'catalog', None) is None:
        return []
    return [tuple(r) for r in cat.catalog.tolist()]


def _compare_rows(ctx, got, want, label, oi, prop='C14'):
    if len(got) != len(want):
        ctx.violate(prop, 'round_trip', '%s:number-of-events' % label, {'op': oi, 'got': len(got), 'want': len(want)})
        return False
    names = ('id', 'origin_time', 'latitude', 'longitude', 'depth', 'magnitude')
    for k, (g, w) in enumerate(zip(got, want)):
        for c in range(6):
            if hexf(g[c]) != hexf(w[c]):
                sig = '%s:%s' % (label, names[c])
                if sorted(map(repr, got)) == sorted(map(repr, want)):
                    sig = '%s:order' % label
                ctx.violate(prop, 'round_trip', sig, {'op': oi, 'event': k, 'got': g[c], 'want': w[c]})
                return False
    return True


def _execute14(scn, ctx, store, clock):
    import csep
    from csep.core.catalogs import CSEPCatalog
    region = build.make_region(scn['region'], scn['mags'])
    clock.auto_step_us = 0

    def make(ci):
        c = scn['cats'][ci]
        return build.make_catalog(c['events'], region=region if c['with_region'] else None,
                                  catalog_id=c['catalog_id'], name=c['name'])
    live = {}
    for ci in range(len(scn['cats'])):
        r = call(make, ci)
        if r[0] != 'ok':
            ctx.count('construction_failed:' + r[1])
            return
        live[ci] = r[1]
        if not hexf([list(x) for x in rows_of(r[1])]) == hexf([list(x) for x in model_rows(scn['cats'][ci]['events'])]):
            ctx.count('construction_mismatch')
            return
    n_files = 0
    cur_events = {ci: list(scn['cats'][ci]['events']) for ci in live}      # model of the live objects
    import operator as _op
    cmp = {'>=': _op.ge, '<': _op.lt, '>': _op.gt}
    for oi, op in enumerate(scn['ops']):
        kind = op['op']
        if kind == 'MUTATE':
            ci = op['cat']
            if ci not in live:
                continue
            c = live[ci]
            ctx.count('fire:mutate_' + op['how'])
            if op['warm'] == 'to_dict':
                call(c.to_dict)
            elif op['warm'] == 'write_json':
                n_files += 1
                call(c.write_json, store.path('warm_%d.json' % n_files))
            elif op['warm'] == 'to_dataframe' and (getattr(c, 'region', None) is None or not scn['cats'][ci].get('mixed')):
                call(c.to_dataframe)
            if op['how'] == 'poke':
                # the caller edits the event array in place (element assignment on catalog.catalog, no setter involved)
                if cur_events[ci]:
                    k_ = oi % len(cur_events[ci])
                    newmag = float(cur_events[ci][k_][5]) + 0.125
                    r = call(lambda: c.catalog['magnitude'].__setitem__(k_, newmag))
                    cur_events[ci] = [list(e) for e in cur_events[ci]]
                    cur_events[ci][k_][5] = newmag
                else:
                    r = ('ok', None)
            elif op['how'] == 'filter_copy':
                # a filtered copy is taken and dropped; the original keeps all its events (and must round-trip them)
                r = call(c.filter, op['stmt'], in_place=False)
            elif op['how'] == 'filter':
                r = call(c.filter, op['stmt'])
                name, oper, val = op['stmt'].split(' ')
                cur_events[ci] = [e for e in cur_events[ci] if cmp[oper](float(e[5]), float(val))]
            else:
                r = call(c.filter_spatial, region)
                from .fcsim import _inside
                cur_events[ci] = [e for e in cur_events[ci] if _inside(e, scn['region'])]
            if r[0] != 'ok':
                ctx.count('mutate_exception:' + r[1])          # filtering itself is C04's business
                del live[ci]
                continue
            if not hexf([list(x) for x in rows_of(c)]) == hexf([list(x) for x in model_rows(cur_events[ci])]):
                ctx.count('mutate_mismatch')                   # C04's business; this object is no longer used
                del live[ci]
            continue
        if kind == 'CUSTOM_LOADER':
            own = [('own%d' % k, 1000 * k, 1.0 + k, 2.0 + k, 3.0, 4.0 + k) for k in range(op['n'])]

            def own_reader(filename, **kw):
                return list(own)
            n_files += 1
            pth = store.path('own_%d.txt' % n_files)
            with open(pth, 'w') as f:
                f.write('own format\n')
            kw = {'loader': own_reader}
            if op.get('type'):
                kw['type'] = op['type']
            r = call(csep.load_catalog, pth, **kw)
            ctx.count('fire:other_component_custom_loader')
            if r[0] != 'ok':
                ctx.count('custom_loader_exception:' + r[1])
            elif [x[0] for x in rows_of(r[1])] != [x[0].encode() for x in own]:
                ctx.count('custom_loader_other_content')
            continue
        if kind == 'TWIN':
            tw = scn.get('region_twin')
            if not tw:
                continue
            import random as _random
            P = _random.Random(oi)
            treg = build.make_region(tw, scn['mags'])
            evs = [gen.gen_event(P, tw, scn['mags'], eid='tw%d' % k)[0] for k in range(op['n'])]
            tc = build.make_catalog(evs, region=treg, catalog_id=3, name='twin')
            n_files += 1
            if op['fmt'] == 'dict':
                r = call(lambda: CSEPCatalog.from_dict(tc.to_dict()))
            else:
                pth = store.path('twin_%d.json' % n_files)
                r = call(tc.write_json, pth)
                if r[0] == 'ok':
                    r = call(csep.load_catalog, pth)
            ctx.count('twin_region_roundtrip')
            if r[0] != 'ok':
                ctx.violate('C14', 'exception', 'TWIN:%s:%s' % (op['fmt'], r[1]), {'op': oi, 'msg': r[2]})
                continue
            nr = getattr(r[1], 'region', None)
            if nr is None or not _same_region(ctx, treg, nr, tw, op_seed=oi):
                ctx.violate('C14', 'metadata', '%s:region-differs' % op['fmt'], {'op': oi, 'which': 'look-alike region'})
            _compare_rows(ctx, rows_of(r[1]), model_rows(evs), 'TWIN:' + op['fmt'], oi)
            continue
        if kind == 'CLOCK_JUMP':
            ctx.count('fire:clock_' + op['kind'])
            if op['kind'] == 'forward':
                clock.advance(op['arg'])
            elif op['kind'] == 'backward':
                clock.advance(-op['arg'])
            elif op['kind'] == 'zero_usec':
                clock.set(clock.now_us - clock.now_us % 1000000)
            else:
                clock.set(op['to_us'])
            continue
        if kind == 'TZ_SWITCH':
            ctx.count('fire:tz_switch')
            set_tz(op['tz'])
            continue
        if kind == 'OVERWRITE':
            a, b = op['first'], op['second']
            if a not in live or b not in live:
                continue
            n_files += 1
            path = store.path('over_%d.%s' % (n_files, 'json' if op['fmt'] == 'json' else 'csv'))
            appending = op['fmt'] == 'ascii_append'
            for k_, src in enumerate((a, b)):
                c = make(src)
                if appending:
                    # append mode: the second catalog is added to the file the first one left behind
                    r = call(c.write_ascii, path, write_header=op.get('header', True)) if k_ == 0 else \
                        call(c.write_ascii, path, write_header=False, append=True)
                else:
                    r = call(c.write_ascii, path) if op['fmt'] == 'ascii' else call(c.write_json, path)
                if r[0] != 'ok':
                    ctx.violate('C14', 'exception', 'OVERWRITE:write:%s:%s' % (op['fmt'], r[1]), {'op': oi, 'msg': r[2]})
                    return
                if k_ == 0 and op.get('read_between', True):
                    # the first version is read before it is replaced (anything remembered per path must not survive)
                    r0 = call(csep.load_catalog, path)
                    if r0[0] == 'ok':
                        _compare_rows(ctx, rows_of(r0[1]), model_rows(scn['cats'][a]['events']), 'OVERWRITE:first:' + op['fmt'], oi)
            r = call(csep.load_catalog, path)
            if r[0] != 'ok':
                ctx.violate('C14', 'exception', 'OVERWRITE:load:%s:%s%s' % (
                    op['fmt'], r[1], ':empty' if not scn['cats'][b]['events'] else ''), {'op': oi, 'msg': r[2]})
                continue
            ctx.count('overwrite_checked')
            _compare_rows(ctx, rows_of(r[1]), (model_rows(scn['cats'][a]['events']) if appending else []) +
                          model_rows(scn['cats'][b]['events']), 'OVERWRITE:' + op['fmt'], oi)
            continue
        # ------------------------------------------------------------------ ROUNDTRIP (chain = generations)
        ci = op['cat']
        if ci not in live:
            continue
        spec = scn['cats'][ci]
        want = model_rows(spec['events'] if op['remake'] else cur_events[ci])
        cat = make(ci) if op['remake'] else live[ci]
        made_at = clock.now_us
        if made_at % 1000000 == 0:
            ctx.count('rare:catalog_made_at_zero_microsecond_instant')
        label = ''
        for gi, fmt in enumerate(op['chain']):
            label = '>'.join(op['chain'][:gi + 1])
            ctx.count('roundtrip:' + fmt)
            empty = len(want) == 0
            if empty:
                ctx.count('rare:empty_catalog_roundtrip')
            n_files += 1
            if fmt == 'ascii':
                path = store.path('cat_%d.csv' % n_files)
                r = call(cat.write_ascii, path, write_header=op['header'], append=op['append_new'])
                if r[0] == 'ok':
                    r = call(csep.load_catalog, path)
            elif fmt == 'json':
                path = store.path('cat_%d.json' % n_files)
                r = call(cat.write_json, path)
                if r[0] == 'ok':
                    r = call(csep.load_catalog, path)
            elif fmt == 'dict':
                r = call(cat.to_dict)
                if r[0] == 'ok':
                    d_ = r[1]
                    before_ = copy.deepcopy(d_)
                    r = call(CSEPCatalog.from_dict, d_)
                    if r[0] == 'ok' and oi % 2 == 0:
                        # the same dictionary is used once more (it is the caller's object and must not have changed)
                        r2_ = call(CSEPCatalog.from_dict, d_)
                        if r2_[0] != 'ok' or not _compare_rows(ctx, rows_of(r2_[1]), want, 'dict:second-use-of-the-same-dict', oi):
                            break
                        try:
                            same_ = (d_ == before_)
                        except Exception:
                            same_ = True
                        if not same_:
                            ctx.violate('C14', 'argument_mutated', 'from_dict-modified-the-callers-dictionary', {'op': oi})
                            break
            else:
                r = call(cat.to_dataframe, with_datetime=op['with_datetime'])
                if r[0] == 'ok':
                    df_ = r[1]
                    if op.get('df_cols'):
                        # columns are addressed by label: their order in the caller's frame is a delivery detail
                        cols_ = list(df_.columns)
                        random.Random(op['df_cols']).shuffle(cols_)
                        df_ = df_[cols_]
                    r = call(CSEPCatalog.from_dataframe, df_)
            if r[0] != 'ok':
                ctx.violate('C14', 'exception', '%s:%s%s' % (fmt, r[1], ':empty' if empty else ''),
                            {'op': oi, 'chain': label, 'msg': r[2], 'n': len(want)})
                break
            new = r[1]
            if not _compare_rows(ctx, rows_of(new), want, fmt, oi):
                break
            # integer catalog id survives every format (an empty ASCII file has no row to carry it)
            cid = spec['catalog_id']
            if isinstance(cid, int) and not (fmt == 'ascii' and empty) and not (fmt == 'df' and empty):
                got_id = getattr(new, 'catalog_id', None)
                ok_id = got_id is not None and not isinstance(got_id, (str, bytes)) and int(got_id) == cid and \
                    float(got_id) == float(cid)
                if not ok_id:
                    ctx.violate('C14', 'catalog_id', '%s:integer-catalog-id-lost' % fmt,
                                {'op': oi, 'got': repr(got_id), 'want': cid})
                    break
            if fmt in ('json', 'dict'):
                if getattr(new, 'name', None) != getattr(cat, 'name', None):
                    ctx.violate('C14', 'metadata', '%s:name' % fmt, {'op': oi, 'got': new.name, 'want': cat.name})
                    break
                if getattr(cat, 'region', None) is not None:
                    nr = getattr(new, 'region', None)
                    if nr is None:
                        ctx.violate('C14', 'metadata', '%s:region-lost' % fmt, {'op': oi})
                        break
                    if not _same_region(ctx, cat.region, nr, scn['region'], op_seed=oi):
                        ctx.violate('C14', 'metadata', '%s:region-differs' % fmt, {'op': oi})
                        break
                    ctx.count('region_roundtrip_checked')
            cat = new
            # later generations of a chain: only formats that keep what this one kept
            if fmt in ('ascii', 'df'):
                spec = dict(spec, name=None)
                if empty:
                    spec = dict(spec, catalog_id=None)      # no row carried the id
            ctx.log('gen', oi, gi, fmt, len(want), getattr(new, 'catalog_id', None))
        ctx.state((tuple(op['chain']), len(want) == 0, spec['catalog_id'] is not None))
    if scn.get('probe') and not ctx.violations:
        run_probe14(scn, ctx, store, make)


def run_probe14(scn, ctx, store, make):
    """Storage faults beyond C14 (the property admits no I/O error): outcomes are counted, never judged."""
    import csep
    import os
    pr = scn['probe']
    cat = make(pr['cat'])
    want = model_rows(scn['cats'][pr['cat']]['events'])
    path = store.path('probe.' + ('csv' if pr['fmt'] == 'ascii' else 'json'))
    writer = cat.write_ascii if pr['fmt'] == 'ascii' else cat.write_json
    if pr['kind'] == 'enospc':
        ctx.count('fire:probe_enospc_on_open')
        store.fail_at = store.opens + 1
        r = call(writer, path)
        store.fail_at = None
        ctx.count('probe:enospc:' + ('propagates_OSError' if r[0] == 'exc' and r[1] == 'OSError' else
                                     'silent' if r[0] == 'ok' else 'other:' + r[1]))
        ctx.count('probe:enospc:file_left_behind' if os.path.exists(path) else 'probe:enospc:no_file')
        return
    ctx.count('fire:probe_torn_write')
    r = call(writer, path)
    if r[0] != 'ok':
        return
    size = os.path.getsize(path)
    cut = int(size * pr['cut'])
    with open(path, 'r+b') as f:
        f.truncate(cut)
    r = call(csep.load_catalog, path)
    if r[0] != 'ok':
        ctx.count('probe:torn_%s:load_raises:%s' % (pr['fmt'], r[1]))
        return
    got = rows_of(r[1])
    if hexf([list(x) for x in got]) == hexf([list(x) for x in want[:len(got)]]):
        ctx.count('probe:torn_%s:loads_a_clean_prefix' % pr['fmt'] if len(got) < len(want) else
                  'probe:torn_%s:loads_everything' % pr['fmt'])
    elif len(got) and hexf([list(x) for x in got[:-1]]) == hexf([list(x) for x in want[:len(got) - 1]]):
        ctx.count('probe:torn_%s:loads_prefix_with_damaged_last_event' % pr['fmt'])
    else:
        ctx.count('probe:torn_%s:loads_other' % pr['fmt'])


def _same_region(ctx, a, b, region_lit, op_seed=0):
    """to_dict equality and identical cell index for probe points"""
    try:
        if a.to_dict() != b.to_dict():
            return False
    except Exception:
        return False
    P = random.Random(op_seed)
    for i in range(12):
        ci = P.randrange(gen.n_cells(region_lit))
        x_ = P.random()
        if x_ < 0.55:
            lon, lat = gen.point_in_cell(P, region_lit, ci)
        elif x_ < 0.75 and region_lit['kind'] == 'cart':
            # just inside a cell next to one of its edges (1e-4 .. 1e-8 of a cell: far above the binning tolerance)
            o_, dh_ = region_lit['origins'][ci], region_lit['dh']
            eps_ = dh_ * 10.0 ** -P.randint(4, 8)
            lon = o_[0] + dh_ - eps_ if P.random() < 0.5 else o_[0] + eps_
            lat = o_[1] + dh_ - eps_ if P.random() < 0.5 else o_[1] + dh_ * 0.5
        else:
            lon, lat = gen.point_outside(P, region_lit)
        ra = call(a.get_index_of, numpy.array([lon]), numpy.array([lat]))
        rb = call(b.get_index_of, numpy.array([lon]), numpy.array([lat]))
        if ra[0] != rb[0]:
            return False
        if ra[0] == 'ok' and int(ra[1][0]) != int(rb[1][0]):
            return False
    return True


# --------------------------------------------------------------------------- C18

def _numeric_list(x):
    try:
        a = numpy.asarray(x, dtype=float)
    except (TypeError, ValueError):
        return None
    return a.ravel().tolist()


def _field_equal(a, b):
    """NaN-aware, tuple == list, numpy scalar == python scalar"""
    if isinstance(a, (list, tuple)) or isinstance(b, (list, tuple)) or isinstance(a, numpy.ndarray) or isinstance(b, numpy.ndarray):
        la = list(a) if a is not None and not isinstance(a, str) else a
        lb = list(b) if b is not None and not isinstance(b, str) else b
        if not isinstance(la, list) or not isinstance(lb, list) or len(la) != len(lb):
            return False
        return all(_field_equal(x, y) for x, y in zip(la, lb))
    if a is None or b is None:
        return a is None and b is None
    if isinstance(a, str) or isinstance(b, str):
        return isinstance(a, str) and isinstance(b, str) and a == b
    try:
        fa, fb = float(a), float(b)
    except (TypeError, ValueError):
        return a == b
    if math.isnan(fa) or math.isnan(fb):
        return math.isnan(fa) and math.isnan(fb)
    return fa == fb


def check_result_roundtrip(ctx, store, res, tag, n, generation=1, original=None):
    import csep
    # only two paths per run: most results overwrite an earlier (longer or shorter) file written moments before
    path = store.path('res_%d.json' % (n % 2))
    cls = type(res).__name__
    w = call(csep.write_json, res, path)
    if w[0] != 'ok':
        ctx.violate('C18', 'write', '%s:%s' % (cls, w[1]), {'test': tag, 'msg': w[2]})
        return
    r = call(csep.load_evaluation_result, path)
    if r[0] != 'ok':
        ctx.violate('C18', 'load', '%s:%s' % (cls, r[1]), {'test': tag, 'msg': r[2]})
        return
    new = r[1]
    ctx.count('result_roundtrip:' + cls)
    # second documented loading path: csep.load_json(<class>, path) -> FileSystem.load -> <class>.from_dict
    r2 = call(csep.load_json, type(res), path)
    if r2[0] != 'ok':
        ctx.violate('C18', 'load', '%s:load_json:%s' % (cls, r2[1]), {'test': tag, 'msg': r2[2]})
        return
    for fld in ('name', 'status', 'observed_statistic', 'quantile'):
        if not _field_equal(getattr(new, fld, None), getattr(r2[1], fld, None)):
            ctx.violate('C18', 'fields', '%s:load_json-differs-from-load_evaluation_result:%s' % (cls, fld), {'test': tag})
            return
    ctx.log('result', tag, cls, getattr(new, 'status', None), getattr(new, 'observed_statistic', None),
            getattr(new, 'quantile', None))
    if type(new).__name__ != cls:
        ctx.violate('C18', 'fields', '%s:class-becomes-%s' % (cls, type(new).__name__), {'test': tag})
        return
    for fld in ('name', 'status', 'observed_statistic', 'quantile', 'sim_name', 'obs_name', 'min_mw'):
        a, b = getattr(res, fld, None), getattr(new, fld, None)
        if not _field_equal(a, b):
            ctx.violate('C18', 'fields', '%s:%s' % (cls, fld), {'test': tag, 'before': repr(a)[:120], 'after': repr(b)[:120]})
            return
        if fld == 'observed_statistic':
            if a is None:
                ctx.count('rare:none_statistic')
            else:
                try:
                    fa = float(a)
                    if math.isnan(fa):
                        ctx.count('rare:nan_statistic')
                    elif math.isinf(fa):
                        ctx.count('rare:infinite_statistic')
                except (TypeError, ValueError):
                    pass
    def _is_seq(x):
        return isinstance(x, (list, tuple)) or (isinstance(x, numpy.ndarray) and x.ndim >= 1)
    if _is_seq(res.test_distribution) and not _is_seq(new.test_distribution):
        ctx.violate('C18', 'fields', '%s:test_distribution:sequence-becomes-scalar' % cls,
                    {'test': tag, 'before_len': len(res.test_distribution), 'after': repr(new.test_distribution)[:60]})
        return
    da = _numeric_list(res.test_distribution)
    if da is not None:
        db = _numeric_list(new.test_distribution)
        if db is None or not _field_equal(da, db):
            ctx.violate('C18', 'fields', '%s:test_distribution' % cls,
                        {'test': tag, 'before_len': len(da), 'after_len': None if db is None else len(db)})
            return
    else:
        if not _field_equal(res.test_distribution, new.test_distribution):
            ctx.violate('C18', 'fields', '%s:test_distribution' % cls, {'test': tag})
            return
    if generation == 1 and n % 3 == 0:
        # second generation: the loaded result is itself a result the library produced; write and load it again
        check_result_roundtrip(ctx, store, new, tag + '>2nd', n + 1, generation=2, original=res)
    elif generation == 2 and original is not None:
        for fld in ('observed_statistic', 'quantile', 'test_distribution', 'status', 'name'):
            if not _field_equal(getattr(original, fld, None) if fld != 'test_distribution' else
                                (_numeric_list(original.test_distribution) or list(original.test_distribution)
                                 if not isinstance(original.test_distribution, str) else original.test_distribution),
                                getattr(new, fld, None) if fld != 'test_distribution' else
                                (_numeric_list(new.test_distribution) or list(new.test_distribution)
                                 if not isinstance(new.test_distribution, str) else new.test_distribution)):
                ctx.violate('C18', 'fields', '%s:second-generation:%s' % (cls, fld), {'test': tag})
                return
        ctx.count('second_generation_checked')


def _execute18(scn, ctx, store, clock):
    import csep
    from csep.core import catalog_evaluations as ce
    from csep.core import poisson_evaluations as pe
    from csep.core import binomial_evaluations as be
    from csep.core.regions import CartesianGrid2D
    inner = scn['inner']
    results = []
    sub = scn['sub']
    from ..kernel import Ctx
    ictx = Ctx(focus='C18')
    # run the producing simulation with its own seams (clock / store are shared: re-entrant use is
    # avoided by removing ours first)
    clock.remove()
    store.remove()
    try:
        if sub == 'fcsim':
            fcsim.execute(inner, ictx, collect_results=results)
        else:
            rngsim.execute(inner, ictx, collect_results=results)
    finally:
        set_tz(scn.get('tz', 'UTC'))
        store.install()
        clock.install()
    extra = []
    if sub in ('rngsim', 'gridded_misc'):
        # results of the simulation-free gridded tests on the same world
        fc = build.make_gridded(inner)
        for oi, o in enumerate(inner['obs'][:2]):
            cat = build.make_catalog(o['events'], region=fc.region, name=None if inner.get('unnamed') else 'obs')
            for nm, f, kw in (('N', pe.number_test, {}), ('NBD', be.negative_binomial_number_test, {'variance': float(numpy.sum(fc.data)) * 3 + 1.0}),
                              ('T', pe.paired_t_test, None), ('W', pe.w_test, None)):
                if kw is None:
                    if len(o['events']) < 2:
                        continue
                    bench = build.make_gridded(inner, rates=[[v * 0.5 + 1e-3 for v in row] for row in inner['rates']], name='bench')
                    r = call(f, fc, bench, cat)
                else:
                    r = call(f, fc, cat, **kw)
                if r[0] == 'ok':
                    extra.append((oi, nm, r[1]))
                else:
                    ctx.count('producer_exception:%s:%s' % (nm, r[1]))
    allres = [(a, b, c) for a, b, c in results] + extra
    if scn.get('calibration'):
        valid = [c for _, _, c in results if c is not None and getattr(c, 'status', '') != 'not-valid'
                 and isinstance(getattr(c, 'quantile', None), (tuple, list)) and len(c.quantile) == 2
                 and all(isinstance(x, (int, float, numpy.floating)) for x in c.quantile)]
        if len(valid) >= 2:
            r = call(ce.calibration_test, valid)
            if r[0] == 'ok':
                allres.append((0, 'calibration', r[1]))
    ctx.log('n_results', len(allres))
    for n, (oi, tag, res) in enumerate(allres):
        if res is None:
            continue
        check_result_roundtrip(ctx, store, res, str(tag), n)
        if not scn.get('same_instant'):
            clock.advance(1234567)
    # backup saves: probe of the clock-named backup path; the primary file must round-trip
    if scn.get('backup') and allres and allres[0][2] is not None:
        from csep.core.repositories import FileSystem
        res = allres[0][2]
        repo = FileSystem(url=store.path('primary.json'))
        for k in range(3):
            r = call(repo.save, res.to_dict(), backup=True)
            if r[0] != 'ok':
                ctx.violate('C18', 'write', 'backup-save:%s' % r[1], {'msg': r[2]})
                break
        r = call(csep.load_evaluation_result, store.path('primary.json'))
        if r[0] == 'ok':
            ctx.count('probe:backup_saves')
            import os
            ctx.count('probe:backup_files_kept', len([f for f in os.listdir(store.root) if 'backup' in f]))
    # region clause
    if scn.get('twin18'):
        # a look-alike lattice (same spacing, cell count, extent; other cells) is rebuilt from its dict first
        tl = scn['twin18']
        rt = call(build.make_region, tl, scn['mags18'])
        if rt[0] == 'ok':
            rr = call(lambda: CartesianGrid2D.from_dict(rt[1].to_dict()))
            ctx.count('twin_region_roundtrip')
            if rr[0] == 'ok' and not _same_region(ctx, rt[1], rr[1], tl, op_seed=scn['probe_seed']):
                ctx.violate('C18', 'region', 'rebuilt-region-assigns-different-cell', {'which': 'look-alike lattice'})
    reg_lit = scn['region18']
    if scn.get('perm_prelude') and len(reg_lit['origins']) > 1:
        # the same cells listed in another order were rebuilt from their dict earlier in the process
        pl = dict(reg_lit)
        pl['origins'] = list(reg_lit['origins'])
        random.Random(scn['perm_prelude']).shuffle(pl['origins'])
        rp_ = call(build.make_region, pl, scn['mags18'])
        if rp_[0] == 'ok':
            rq_ = call(lambda: CartesianGrid2D.from_dict(rp_[1].to_dict()))
            ctx.count('fire:same_cells_in_another_order_rebuilt_before')
            if rq_[0] == 'ok' and not _same_region(ctx, rp_[1], rq_[1], pl, op_seed=scn['probe_seed'] + 1):
                ctx.violate('C18', 'region', 'rebuilt-region-assigns-different-cell', {'which': 'permuted-order prelude'})
    ra_ = call(build.make_region, reg_lit, scn['mags18'])
    if ra_[0] != 'ok':
        ctx.count('region_construction_failed:' + ra_[1])      # C01's business
        return
    a = ra_[1]
    if reg_lit.get('odd'):
        ctx.count('rare:lattice_with_non_decimal_anchor')
    if scn.get('scribble'):
        # the caller computes cell centres in place on the arrays the region handed out (they are the caller's arrays)
        ctx.count('fire:caller_modifies_returned_origins_in_place')
        rs_ = call(lambda: a.origins())
        if rs_[0] == 'ok' and isinstance(rs_[1], numpy.ndarray) and rs_[1].flags.writeable:
            rs_[1][...] += reg_lit['dh'] / 2
    r = call(lambda: CartesianGrid2D.from_dict(a.to_dict()))
    if r[0] != 'ok':
        ctx.violate('C18', 'region', 'from_dict:%s' % r[1], {'msg': r[2]})
        return
    b = r[1]
    P = random.Random(scn['probe_seed'])
    dh = reg_lit['dh']
    for i in range(25):
        ci = P.randrange(gen.n_cells(reg_lit))
        x = P.random()
        o = reg_lit['origins'][ci]
        if x < 0.4:
            lon, lat = gen.point_in_cell(P, reg_lit, ci)
        elif x < 0.6:
            lon, lat = o[0], o[1]                       # lower corner
        elif x < 0.7:
            lon, lat = o[0] + dh * 0.5, o[1]
        elif x < 0.74:
            lon, lat = float(numpy.nextafter(o[0] + dh, -numpy.inf)), o[1] + dh * 0.5
        elif x < 0.8:
            # just inside the cell next to an edge, at distances far above the binning tolerance (1e-4 .. 1e-8 of a cell)
            eps_ = dh * 10.0 ** -P.randint(4, 8)
            lon = o[0] + dh - eps_ if P.random() < 0.5 else o[0] + eps_
            lat = o[1] + dh - eps_ if P.random() < 0.5 else o[1] + dh * 0.5
        elif x < 0.88:
            lon, lat = o[0] + dh, o[1] + dh                 # upper corner = a neighbour's lower corner
        elif x < 0.92:
            lon, lat = o[0] + dh * 0.5, float(numpy.nextafter(o[1], -numpy.inf))
        else:
            lon, lat = gen.point_outside(P, reg_lit)
        ra = call(a.get_index_of, numpy.array([lon]), numpy.array([lat]))
        rb = call(b.get_index_of, numpy.array([lon]), numpy.array([lat]))
        ctx.count('region_probe_points')
        if ra[0] != rb[0] or (ra[0] == 'ok' and int(ra[1][0]) != int(rb[1][0])):
            ctx.violate('C18', 'region', 'rebuilt-region-assigns-different-cell',
                        {'lon': lon, 'lat': lat, 'orig': str(ra[1])[:40], 'rebuilt': str(rb[1])[:40]})
            break


# --------------------------------------------------------------------------- shrinking

def shrink_candidates(scn):
    def variant(f):
        s = copy.deepcopy(scn)
        f(s)
        return s
    if scn['kind'] == 'C18':
        inner = scn['inner']
        eng = fcsim if scn['sub'] == 'fcsim' else rngsim
        for cand in eng.shrink_candidates(inner):
            yield variant(lambda s, cand=cand: s.__setitem__('inner', cand))
        if scn.get('calibration'):
            yield variant(lambda s: s.__setitem__('calibration', False))
        if scn.get('backup'):
            yield variant(lambda s: s.__setitem__('backup', False))
        if len(scn['region18']['origins']) > 1:
            def f(s):
                s['region18']['origins'].pop()
            yield variant(f)
        return
    n = len(scn['ops'])
    if n > 1:
        yield variant(lambda s: s.__setitem__('ops', s['ops'][n // 2:]))
        yield variant(lambda s: s.__setitem__('ops', s['ops'][:n // 2]))
        for i in range(n):
            yield variant(lambda s, i=i: s['ops'].pop(i))
    for i, op in enumerate(scn['ops']):
        if op['op'] == 'ROUNDTRIP' and len(op['chain']) > 1:
            for k in range(len(op['chain'])):
                yield variant(lambda s, i=i, k=k: s['ops'][i]['chain'].pop(k))
    for ci, c in enumerate(scn['cats']):
        for k in range(len(c['events'])):
            yield variant(lambda s, ci=ci, k=k: s['cats'][ci]['events'].pop(k))
        for k, e in enumerate(c['events']):
            if e[0] != 'a':
                yield variant(lambda s, ci=ci, k=k: s['cats'][ci]['events'][k].__setitem__(0, 'a'))
    if scn.get('tz') != 'UTC':
        yield variant(lambda s: s.__setitem__('tz', 'UTC'))


class Engine:
    name = 'persistsim'
    generate = staticmethod(generate)
    execute = staticmethod(execute)
    shrink_candidates = staticmethod(shrink_candidates)

    @staticmethod
    def shape(scn):
        if scn['kind'] == 'C18':
            inner = scn['inner']
            eng = fcsim.ENGINE if scn['sub'] == 'fcsim' else rngsim.ENGINE
            return {'sub': scn['sub'], 'inner': eng.shape(inner), 'cal': scn.get('calibration'), 'bk': scn.get('backup')}
        return {'cats': [(len(c['events']), c['with_region'], c['catalog_id']) for c in scn['cats']],
                'ops': [(o['op'], tuple(o.get('chain', ())), o.get('kind'), o.get('fmt'), o.get('header'),
                         o.get('append_new')) for o in scn['ops']]}

    @staticmethod
    def nontrivial(scn, ctx):
        if scn['kind'] == 'C18':
            return any(k.startswith('result_roundtrip:') for k in ctx.counters)
        return any(k.startswith('roundtrip:') for k in ctx.counters) and any(c['events'] for c in scn['cats'])

    @staticmethod
    def sample_view(scn):
        if scn['kind'] == 'C18':
            eng = fcsim.ENGINE if scn['sub'] == 'fcsim' else rngsim.ENGINE
            return {'producer': scn['sub'], 'producer_run': eng.sample_view(scn['inner']),
                    'calibration': scn.get('calibration'), 'backup_saves': scn.get('backup')}
        return {'catalogs': [{'n': len(c['events']), 'first_event': c['events'][:1], 'catalog_id': c['catalog_id'],
                              'with_region': c['with_region']} for c in scn['cats']],
                'ops': scn['ops'][:8], 'tz': scn['tz'], 'clock_us': scn['clock_us']}

    @staticmethod
    def rule(focus):
        if focus == 'C18':
            return ('every evaluation result produced by a seeded engine-A run (catalog-based tests under forecast histories) '
                    'or engine-B run (gridded tests under RNG perturbation), plus N / NBD-N / paired-T / W results and a '
                    'calibration result where computable, is written with csep.write_json at a simulated instant, reloaded with '
                    'csep.load_evaluation_result and compared field by field; optional clock-named backup saves; a generated '
                    'lattice (decimal, non-decimal or 0..360-convention anchor; optionally after the caller modified in place '
                    'an array the region handed out) goes through to_dict -> from_dict and 25 probe points (interiors, corners, '
                    'edges, just inside a cell next to an edge, outside) must get '
                    'the same cell index. distinct = digest of the producing run; non-trivial = >= 1 result round-tripped')
        return ('seeded histories of ROUNDTRIP (chains of 1-3 generations over ASCII / JSON / dict / DataFrame, header on/off, '
                'append-to-new-file, DataFrame columns in any order), OVERWRITE (two writes to one path - replacing or '
                'appending - then read), MUTATE (in-place filter, or a filtered copy taken and dropped), TWIN (look-alike '
                'region), CUSTOM_LOADER (another component reads its own format through loader=), CLOCK_JUMP (forward, backward, to a '
                'zero-microsecond instant, to any instant in 1900..2200) and TZ_SWITCH on 1-3 catalogs with hostile ids '
                '(delimiters, quotes, blanks, NA / null / nan / number look-alikes), '
                'instants over 1900..2200 at every millisecond phase, full-range 17-digit and short-repr doubles, with and '
                'without region / catalog id / name; model = logical catalog per path. distinct = digest of (catalog sizes, '
                'op list); non-trivial = >= 1 round trip of a non-empty catalog')

    @staticmethod
    def components():
        return {'real': ['CSEPCatalog.write_ascii / write_json / to_dict / from_dict / to_dataframe / from_dataframe',
                         'csep.load_catalog + readers.csep_ascii', 'csep.write_json / load_evaluation_result / FileSystem',
                         'csep.models result classes', 'CartesianGrid2D.to_dict / from_dict', 'csv, json, pandas',
                         'file system (tmpfs scratch dir)'],
                'stubbed': ['wall clock: utc_now_datetime, datetime.now in repositories (SimClock)', 'open() proxy in csep modules '
                            '(write-close-read order assertion)', 'TZ environment', 'stdout'],
                'not_run': ['plotting', 'web clients']}

    @staticmethod
    def assumptions(focus):
        if focus == 'C18':
            return ['field equality is NaN-aware, tuple == list, numpy scalar == python scalar of equal value',
                    'a producer that raises (paired T / W preconditions, environment) yields no result and is counted']
        return ['with a region bound, catalogs hold only events inside that region (to_dataframe asks the region for every event)',
                'an empty ASCII file / DataFrame has no row to carry the catalog id',
                'name is only required to survive dict / JSON']


ENGINE = Engine
