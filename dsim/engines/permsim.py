"""Engine `permsim`: re-ordered delivery (property C20).

Re-ordering is the one classic transport fault that is inside a listed property. For a base world
taken from engine B (gridded forecast + observed catalog) or engine A (catalog forecast), a
permuted twin world is built in which one delivery channel is re-ordered by the run's PRNG -
rows of the observed catalog, assignment of synthetic catalogs to ids / positions (in memory or
in the forecast file), or the cells of the region together with the forecast's rates - and every
evaluation is executed on both worlds from the same RNG state.
"""
import copy
import random

import numpy

from .. import gen, build, models
from ..kernel import hexf, SimBudgetExceeded
from ..seams import SimRandom, SimClock, SimStore, set_tz, TZ_CHOICES
from .fcsim import call, result_view, run_test as run_cat_test_fc, FcWorld, TESTS as CAT_TESTS
from . import fcsim, rngsim

GRID_TESTS = ('N', 'NBD', 'L', 'CL', 'S', 'M', 'BS', 'BCL', 'BRIER', 'T')
SIM_BASED_GRID = ('L', 'CL', 'S', 'M', 'BS', 'BCL', 'BRIER')
SIM_BASED_CAT = ('resampled_magnitude', 'MLL_magnitude', 'MLL_magnitude_full')


def generate(R, tier, focus):
    kind = R.choice(('grid', 'grid', 'cat', 'cat'))
    R2 = random.Random(R.getrandbits(64))
    if kind == 'grid':
        inner = rngsim.generate(R2, tier, 'C20')
        inner['ops'] = []
        inner['cf'] = None
        if not inner['obs'][0]['events'] and R.random() < 0.8:
            inner['obs'][0]['events'] = rngsim.gen_obs(R, inner, 12, allow_zero_rate_bins=False) or \
                [gen.gen_event(R, inner['region'], inner['mags'], eid='o0')[0]]
        if R.random() < 0.15:
            # a lattice that starts at the origin (coordinates spanning several orders of magnitude) with observed
            # events exactly on lower cell edges and one event at a much smaller coordinate: binning tolerances are
            # per point, so the outcome must not depend on which event is stored first
            nxe = R.randint(4, 8)
            inner['region'] = {'kind': 'cart', 'dh': 0.1, 'holes': [], 'bbox': [0.0, 0.0, gen.dec(0.1 * nxe), 0.2],
                               'origins': [[gen.dec(0.1 * i), gen.dec(0.1 * j)] for i in range(nxe) for j in range(2)]}
            nm_ = len(inner['mags']['edges'])
            inner['rates'] = [[10 ** R.uniform(-2, 1) for _ in range(nm_)] for _ in inner['region']['origins']]
            evs = [['small', gen.T0_MS + 5000, 0.05, 0.05, 5.0, gen.mag_in_bin(R, inner['mags'], 0)]]
            for k in range(R.randint(1, 4)):
                i = R.randint(1, nxe - 1)
                evs.append(['edge%d' % k, gen.T0_MS + 6000 + k, R.choice((0.05, 0.15, 0.1)), gen.dec(0.1 * i), 5.0,
                            gen.mag_in_bin(R, inner['mags'], R.randrange(nm_))])
            for k in range(R.randint(0, 3)):
                evs.append(gen.gen_event(R, inner['region'], inner['mags'], eid='in%d' % k)[0])
            R.shuffle(evs)
            inner['obs'] = [{'events': evs, 'edge_world': True}]
        if inner['region']['kind'] == 'quad' and R.random() < 0.35:
            # observed events exactly on the meridian shared by two tiles (tile bounds are dyadic fractions of 360: exact)
            nm_ = len(inner['mags']['edges'])
            for k in range(R.randint(1, 3)):
                b = gen.quadkey_bounds(R.choice(inner['region']['quadkeys']))
                lon_, lat_ = b[0], gen.dec(b[1] + (b[3] - b[1]) * R.choice(gen.FRACS), 6)
                north = [gen.quadkey_bounds(q) for q in inner['region']['quadkeys']]
                north = [x for x in north if x[1] == 0.0]
                if north and R.random() < 0.5:
                    # ... or exactly on the equator, the one parallel shared by tiles whose value is exact (0.0)
                    b = R.choice(north)
                    lon_, lat_ = gen.dec(b[0] + (b[2] - b[0]) * R.choice(gen.FRACS), 6), 0.0
                inner['obs'][0]['events'].insert(
                    R.randint(0, len(inner['obs'][0]['events'])),
                    ['qedge%d' % k, gen.T0_MS + 7000 + k, lat_, lon_, 5.0,
                     gen.mag_in_bin(R, inner['mags'], R.randrange(nm_))])
        if R.random() < 0.15:
            inner['cell_scale'] = [R.choice((0.5, 1.0, 2.0, 3.25)) for _ in range(gen.n_cells(inner['region']))]
        channel = R.choice(('events', 'cells', 'cells'))
        if inner['obs'][0].get('edge_world'):
            channel = 'events'
        # benchmark forecast for the paired T-test: independent positive rates (a benchmark proportional to the
        # forecast makes the variance of the log-ratios vanish and the t statistic ill-conditioned)
        inner['bench'] = [[10 ** R.uniform(-3, 1) for _ in row] for row in inner['rates']]
        nt = R.randint(1, 5)
        tests = [{'test': R.choice(GRID_TESTS), 'seed': R.choice((0, 1, 7, R.randint(2, 10 ** 6))), 'nsim': R.randint(1, 8)}
                 for _ in range(nt)]
        if inner['region']['kind'] == 'cart' and channel != 'bench_cells' and gen.n_cells(inner['region']) > 2 \
                and not inner['obs'][0].get('edge_world') and R.random() < 0.25:
            # cells switched off (flag 0 in a forecast file, mask in memory): not part of the testing region; the observed
            # catalog is cut to the region first, as the usual workflow does
            m = [0 if R.random() < 0.3 else 1 for _ in inner['region']['origins']]
            if not any(m):
                m[0] = 1
            if all(m):
                m[R.randrange(len(m))] = 0
            inner['region']['mask'] = m
        if channel == 'cells' and gen.n_cells(inner['region']) > 1 and R.random() < 0.15 and not inner['region'].get('mask'):
            # only the benchmark forecast of the paired T-test lists its cells (and rates) in another order
            channel = 'bench_cells'
            inner.pop('cell_scale', None)
            tests = [{'test': 'T', 'seed': 1, 'nsim': 1}]
    else:
        inner = fcsim.generate(R2, tier, 'C20')
        inner['ops'] = []
        inner['config']['n_cat_given'] = True if inner['config']['source'] == 'list' else inner['config']['n_cat_given']
        channel = R.choice(('events', 'catalogs', 'catalogs', 'cells'))
        if inner['region']['kind'] == 'quad' and channel == 'cells':
            channel = 'catalogs'
        testable = [t for t in CAT_TESTS if len(inner['mags']['edges']) >= 2 or t in CAT_TESTS[:4]]
        nt = R.randint(1, 5)
        tests = [{'test': R.choice(testable), 'seed': R.choice((0, 1, 7, R.randint(2, 10 ** 6))), 'obs': R.randrange(len(inner['obs']))}
                 for _ in range(nt)]
    for t in tests:
        # the seed's integer type is a delivery detail as well
        t['seed_type'] = R.choice(('int', 'int', 'int', 'int64', 'uint32'))
    cart = inner['region']['kind'] == 'cart'
    extra = {
        # events channel: re-order the SAME catalog object in place after it was evaluated (per-object caches)
        'same_object': channel in ('events', 'cells') and R.random() < 0.4,
        'in_place_array': R.random() < 0.5,
        # the observed catalog goes through the usual time-window / magnitude filters before it is evaluated
        'obs_filtered': kind == 'cat' and R.random() < 0.4,
        # gridded world delivered as a forecast file (cells in world order) instead of in memory
        'delivery': 'file' if (kind == 'grid' and cart and R.random() < 0.3) else 'memory',
        # observed catalog delivered through its JSON form (carries its region along)
        'obs_via_json': kind == 'grid' and cart and R.random() < 0.2,
    }
    if extra['obs_filtered']:
        # observed events outside the forecast window, which the filters remove again
        for o in inner['obs']:
            for k in range(R.randint(1, 3)):
                ev = gen.gen_event(R, inner['region'], inner['mags'], eid='late%d' % k, start_ms=inner['start_ms'],
                                   end_ms=inner['end_ms'])[0]
                ev[1] = R.choice((inner['start_ms'] - R.randint(1, 10 ** 7), inner['end_ms'] + R.randint(0, 10 ** 7)))
                o['events'].insert(R.randint(0, len(o['events'])), ev)
    return {'engine': 'permsim', 'kind': kind, 'inner': inner, 'channel': channel, 'perm_seed': R.randint(0, 2 ** 31), **extra,
            'tests': tests, 'rng_state': R.randint(0, 2 ** 31 - 1), 'tz': R.choice(TZ_CHOICES)}


def permuted(scn):
    """the twin world with one delivery channel re-ordered"""
    P = random.Random(scn['perm_seed'])
    w = copy.deepcopy(scn['inner'])
    ch = scn['channel']
    info = {}
    if ch == 'events':
        info['event_perm'] = {}
        for oi, o in enumerate(w['obs']):
            if 'dup_of' in o:
                continue
            idx = list(range(len(o['events'])))
            P.shuffle(idx)
            o['events'] = [o['events'][i] for i in idx]
            info['event_perm'][oi] = idx
    elif ch == 'cells':
        n = gen.n_cells(w['region'])
        perm = list(range(n))
        P.shuffle(perm)
        if w['region']['kind'] == 'cart':
            w['region']['origins'] = [w['region']['origins'][i] for i in perm]
            if w['region'].get('mask'):
                w['region']['mask'] = [w['region']['mask'][i] for i in perm]
        else:
            w['region']['quadkeys'] = [w['region']['quadkeys'][i] for i in perm]
        if 'rates' in w:
            w['rates'] = [w['rates'][i] for i in perm]
        if w.get('cell_scale'):
            w['cell_scale'] = [w['cell_scale'][i] for i in perm]
        if 'bench' in w:
            w['bench'] = [w['bench'][i] for i in perm]
        info['perm'] = perm
    elif ch == 'bench_cells':
        n = gen.n_cells(w['region'])
        perm = list(range(n))
        P.shuffle(perm)
        w['bench_perm'] = perm
        info['perm'] = perm
    elif ch == 'catalogs':
        J = len(w['cats'])
        perm = list(range(J))
        P.shuffle(perm)
        w['cats'] = [w['cats'][i] for i in perm]
        info['perm'] = perm
    return w, info


def _close_field(a, b, rel=1e-9):
    if isinstance(a, (tuple, list)) and isinstance(b, (tuple, list)):
        return len(a) == len(b) and all(_close_field(x, y, rel) for x, y in zip(a, b))
    if a is None or b is None or isinstance(a, str) or isinstance(b, str):
        return a == b
    return models.close(a, b, rel, 1e-12)


def _multiset_close(a, b):
    a = sorted(a, key=lambda x: (x != x, x))
    b = sorted(b, key=lambda x: (x != x, x))
    return models.close_seq(a, b, 1e-9, 1e-12)


write_world_dat = build.write_world_dat


def _inside(events, region):
    m = region.get('mask')
    if not m:
        return events
    return [e for e in events if m[fcsim.cell_of(e, region)]]


def _eff_rates(world):
    cs = world.get('cell_scale')
    if not cs:
        return world['rates']
    return [[v * cs[i] for v in row] for i, row in enumerate(world['rates'])]


def make_fc(world, env):
    if env.get('delivery') == 'file':
        import csep
        env['n_files'] = env.get('n_files', 0) + 1
        path = env['store'].path('world_%d.dat' % env['n_files'])
        write_world_dat(path, world)
        fc = csep.load_gridded_forecast(path, start_date=build.utc(world['start_ms']).replace(tzinfo=None),
                                        end_date=build.utc(world['end_ms']).replace(tzinfo=None))
    else:
        fc = build.make_gridded(world)
    if world.get('cell_scale'):
        # the forecast was re-weighted cell by cell (an ndarray factor, listed in the same order as the cells)
        fc.scale(numpy.array(world['cell_scale'], dtype=float).reshape(-1, 1))
    return fc


def make_obs(events, fc, env):
    cat = build.make_catalog(events, region=fc.region, name='obs')
    if env.get('masked'):
        cat.filter_spatial(fc.region, in_place=True)
    if env.get('obs_via_json'):
        import csep
        env['n_files'] = env.get('n_files', 0) + 1
        path = env['store'].path('obs_%d.json' % env['n_files'])
        cat.write_json(path)
        cat = csep.load_catalog(path)
    return cat


def run_grid(test, world, obs_events, seed, nsim, env=None, objs=None):
    from csep.core import poisson_evaluations as pe
    from csep.core import binomial_evaluations as be
    env = env or {}
    if objs is not None and 'fc' in objs:
        # same forecast and same catalog object as in the base run; the catalog was re-ordered in place
        fc, cat = objs['fc'], objs['cat']
    else:
        fc = make_fc(world, env)
        cat = make_obs(obs_events, fc, env)
        if objs is not None:
            objs['fc'], objs['cat'] = fc, cat
    if test == 'N':
        return pe.number_test(fc, cat)
    if test == 'NBD':
        return be.negative_binomial_number_test(fc, cat, float(numpy.sum(fc.data)) * 2.5 + 1.0)
    if test == 'T':
        bw = dict(world, rates=world['bench'])
        if world.get('bench_perm'):
            perm = world['bench_perm']
            reg = dict(world['region'])
            key = 'origins' if reg['kind'] == 'cart' else 'quadkeys'
            reg[key] = [world['region'][key][i] for i in perm]
            bw['region'] = reg
            bw['rates'] = [world['bench'][i] for i in perm]
        return pe.paired_t_test(fc, make_fc(bw, env), cat)
    return rngsim.run_gridded_test(test, fc, cat, nsim, seed, None)


def execute(scn, ctx):
    store = SimStore()
    clock = SimClock(0)
    rng = SimRandom(initial_seed=scn.get('rng_state', 0), budget=rngsim.HARD_CAP)
    set_tz(scn.get('tz', 'UTC'))
    store.install()
    clock.install()
    rng.install()
    try:
        _execute(scn, ctx, store, rng)
    finally:
        rng.remove()
        clock.remove()
        store.remove()
        store.cleanup()
        set_tz('UTC')


def _execute(scn, ctx, store, rng):
    base = scn['inner']
    perm, info = permuted(scn)
    ch = scn['channel']
    ctx.count('channel:%s:%s' % (scn['kind'], ch))
    if ch != 'events' and info.get('perm') == sorted(info.get('perm', [])):
        ctx.count('identity_permutation')
    if scn['kind'] == 'cat':
        # separate files for the two delivery orders
        wb = FcWorld(base, store, fname='base')
        wp = FcWorld(perm, store, fname='perm')
    env = {'store': store, 'delivery': scn.get('delivery', 'memory'), 'obs_via_json': scn.get('obs_via_json', False)}
    if scn['kind'] == 'grid' and base['region'].get('mask'):
        env['masked'] = True
        ctx.count('cfg:switched_off_cells')
    if env['delivery'] == 'file':
        ctx.count('cfg:forecast_delivered_as_file')
    if env['obs_via_json']:
        ctx.count('cfg:observed_catalog_delivered_as_json')
    same_object = scn.get('same_object') and ch in ('events', 'cells') and scn['kind'] == 'grid' and \
        env['delivery'] == 'memory' and not env['obs_via_json']
    if same_object:
        ctx.count('cfg:same_catalog_object_reordered_in_place')
    for ti, t in enumerate(scn['tests']):
        test = t['test']
        ctx.count('test:' + test)
        outs = []
        objs = {} if same_object else None
        takes_seed = test in SIM_BASED_GRID or test in SIM_BASED_CAT
        for which, world in (('base', base), ('perm', perm)):
            if which == 'base' or not takes_seed:
                rng.seed(scn['rng_state'] + ti)
            else:
                # "with a fixed seed": the evaluation itself must re-seed; whatever other code drew in between is noise
                rng.mark(budget=rngsim.HARD_CAP)      # (the base run may have ended on its draw budget)
                numpy.random.rand(3)
                ctx.count('fire:noise_between_base_and_permuted_run')
            rng.mark(budget=rngsim.HARD_CAP)
            if scn['kind'] == 'grid':
                if test in ('BS', 'BCL', 'BRIER'):
                    counts = fcsim.grid_counts(_inside(world['obs'][0]['events'], world['region']), world['region'],
                                               world['mags'])
                    fr = rngsim.flat_rates(test, _eff_rates(world))
                    fcn = rngsim.flat_counts(test, counts)
                    if int((fcn > 0).sum()) > int((fr > 0).sum()) or \
                            rngsim.liveness_budget(test, _eff_rates(world), int((fcn > 0).sum()), t['nsim']) >= 100000:
                        outs = None
                        break
                if objs is not None and which == 'perm' and 'cat' in objs:
                    if ch == 'events':
                        idx = info['event_perm'].get(0, [])
                        if len(idx) != len(objs['cat'].catalog):
                            # the catalog was cut to the region: some other permutation of what is left
                            idx = list(range(len(objs['cat'].catalog)))
                            random.Random(scn['perm_seed']).shuffle(idx)
                        if idx and scn.get('in_place_array'):
                            arr = objs['cat'].catalog            # shuffle the stored array itself (no setter involved)
                            arr[:] = arr[numpy.array(idx, dtype=int)]
                        elif idx:
                            objs['cat'].catalog = objs['cat'].catalog[numpy.array(idx, dtype=int)]
                    else:
                        # cells channel: the same catalog object is re-bound to the forecast with permuted cells
                        objs['fc'] = make_fc(world, env)
                        objs['cat'].region = objs['fc'].region
                r = call(run_grid, test, world, world['obs'][0]['events'], rngsim.typed_seed(t['seed'], t.get('seed_type')),
                         t['nsim'], env, objs)
            else:
                fw = wb if which == 'base' else wp
                fc = fw.new_forecast()
                obs = fw.obs_catalog(t['obs'], fc.region)
                if scn.get('obs_filtered'):
                    obs = obs.filter(['origin_time >= %d' % world['start_ms'], 'origin_time < %d' % world['end_ms'],
                                      'magnitude >= %r' % world['mags']['edges'][0]])
                r = call(run_cat_test_fc, test, fc, obs, rngsim.typed_seed(t['seed'], t.get('seed_type')))
            outs.append((r, [(c[0], hexf(c[2])) for c in rng.calls if c[0] != 'seed']))
        if outs is None:
            ctx.count('precond:skipped')
            continue
        (rb, calls_b), (rp, calls_p) = outs
        if rb[0] == 'budget' or rp[0] == 'budget':
            ctx.count('probe:hard_cap_reached_not_judged')
            continue
        if rb[0] == 'exc' and rp[0] == 'exc':
            ctx.count('precond:both_raise:%s:%s' % (test, rb[1]))
            continue
        if rb[0] != rp[0]:
            which = 'permuted' if rp[0] == 'exc' else 'base'
            bad = rp if rp[0] == 'exc' else rb
            ctx.violate('C20', 'exception', '%s:%s:only-%s-order-raises:%s' % (ch, test, which, bad[1]), {'msg': bad[2]})
            continue
        vb, vp = result_view(rb[1]), result_view(rp[1])
        if (vb is None) != (vp is None):
            ctx.violate('C20', 'result', '%s:%s:none-vs-result' % (ch, test), {})
            continue
        if vb is None:
            continue
        ctx.log('pair', ti, test, ch, vb['obs'], vp['obs'])
        ctx.count('pairs_compared')
        sim_based = test in SIM_BASED_GRID or test in SIM_BASED_CAT
        if vb['status'] != vp['status']:
            ctx.violate('C20', 'status', '%s:%s' % (ch, test), {'base': vb['status'], 'perm': vp['status']})
            continue
        # 1. observed statistic: unchanged to rounding under every permutation
        if not _close_field(vb['obs'], vp['obs']):
            ctx.violate('C20', 'observed_statistic', '%s:%s' % (ch, test), {'base': vb['obs'], 'perm': vp['obs']})
            continue
        if ch == 'events':
            if sim_based or test in ('N', 'NBD', 'number', 'spatial', 'magnitude', 'pseudolikelihood'):
                # fixed seed + re-ordered observed events: bit-for-bit identical, same draw stream
                if hexf([vb['obs'], vb['quantile'], vb['dist']]) != hexf([vp['obs'], vp['quantile'], vp['dist']]):
                    fld = 'obs' if hexf(vb['obs']) != hexf(vp['obs']) else (
                        'quantile' if hexf(vb['quantile']) != hexf(vp['quantile']) else 'distribution')
                    ctx.violate('C20', 'bit_identical', 'events:%s:%s' % (test, fld),
                                {'base': vb[fld if fld != 'distribution' else 'dist'],
                                 'perm': vp[fld if fld != 'distribution' else 'dist']})
                    continue
                if calls_b != calls_p:
                    ctx.violate('C20', 'bit_identical', 'events:%s:draw-stream-differs' % test, {})
                    continue
            else:
                # paired T: sums over events in another order; the t statistic divides by a variance
                # obtained by cancellation, so "to rounding" is 1e-6 here
                if not _close_field(vb['quantile'], vp['quantile'], 1e-6) or not _close_field(vb['dist'], vp['dist'], 1e-6):
                    ctx.violate('C20', 'analytic', 'events:%s' % test, {'base': vb['quantile'], 'perm': vp['quantile']})
        else:
            if not sim_based:
                # analytic quantiles / simulation-free distributions
                if test in ('N', 'NBD', 'T'):
                    tolq = 1e-6 if test == 'T' else 1e-7
                    if not _close_field(vb['quantile'], vp['quantile'], tolq) or \
                            not _close_field(list(vb['dist'])[-1:], list(vp['dist'])[-1:], tolq):
                        ctx.violate('C20', 'analytic', '%s:%s:quantile' % (ch, test),
                                    {'base': vb['quantile'], 'perm': vp['quantile']})
                else:
                    if not _multiset_close(vb['dist'], vp['dist']):
                        ctx.violate('C20', 'multiset', '%s:%s:distribution' % (ch, test),
                                    {'base': sorted(vb['dist'])[:6], 'perm': sorted(vp['dist'])[:6]})
                    elif not _close_field(vb['quantile'], vp['quantile']):
                        # ties within rounding can move an empirical quantile: only judged when the
                        # observed value is separated from every distribution entry
                        def separated(v):
                            return v['obs'] is not None and all(
                                abs(x - v['obs']) > 1e-9 * max(1.0, abs(x)) for x in v['dist'] if x == x)
                        if separated(vb) and separated(vp):
                            ctx.violate('C20', 'multiset', '%s:%s:quantile' % (ch, test),
                                        {'base': vb['quantile'], 'perm': vp['quantile']})


def shrink_candidates(scn):
    def variant(f):
        s = copy.deepcopy(scn)
        f(s)
        return s
    n = len(scn['tests'])
    if n > 1:
        for i in range(n):
            yield variant(lambda s, i=i: s['tests'].pop(i))
    inner = scn['inner']
    if scn['kind'] == 'grid':
        for k in range(len(inner['obs'][0]['events'])):
            yield variant(lambda s, k=k: s['inner']['obs'][0]['events'].pop(k))
        for t_i, t in enumerate(scn['tests']):
            if t.get('nsim', 1) > 1:
                yield variant(lambda s, t_i=t_i: s['tests'][t_i].__setitem__('nsim', 1))

        def simplify(s):
            s['inner']['rates'] = [[(1.0 + i + 0.5 * k if v > 0 else 0.0) for k, v in enumerate(row)]
                                   for i, row in enumerate(s['inner']['rates'])]
        yield variant(simplify)
    else:
        J = len(inner['cats'])
        if J > 2:
            for i in range(J):
                yield variant(lambda s, i=i: s['inner']['cats'].pop(i))
        for j, evs in enumerate(inner['cats']):
            for k in range(len(evs)):
                yield variant(lambda s, j=j, k=k: s['inner']['cats'][j].pop(k))
        for i, o in enumerate(inner['obs']):
            for k in range(len(o['events'])):
                yield variant(lambda s, i=i, k=k: s['inner']['obs'][i]['events'].pop(k))
        cfg = inner['config']
        if cfg['apply_filters']:
            def nofilt(s):
                c = s['inner']['config']
                s['inner']['cats'] = fcsim.model_filter(s['inner']['cats'], c, s['inner']['region'])
                c['apply_filters'] = False
                c['filters'] = []
                c['filter_spatial'] = False
            yield variant(nofilt)
        if cfg['source'] == 'file':
            yield variant(lambda s: (s['inner']['config'].__setitem__('source', 'list'),
                                     s['inner']['config'].__setitem__('n_cat_given', True)))
    if scn.get('tz') != 'UTC':
        yield variant(lambda s: s.__setitem__('tz', 'UTC'))


class Engine:
    name = 'permsim'
    generate = staticmethod(generate)
    execute = staticmethod(execute)
    shrink_candidates = staticmethod(shrink_candidates)

    @staticmethod
    def shape(scn):
        inner = scn['inner']
        base = {'kind': scn['kind'], 'channel': scn['channel'], 'tests': [(t['test'], t.get('seed'), t.get('nsim')) for t in scn['tests']],
                'ncell': gen.n_cells(inner['region'])}
        if scn['kind'] == 'grid':
            base['nobs'] = len(inner['obs'][0]['events'])
            base['zeros'] = sum(1 for r in inner['rates'] for v in r if v == 0)
        else:
            base['sizes'] = [len(c) for c in inner['cats']]
            base['cfg'] = inner['config']['source']
        return base

    @staticmethod
    def nontrivial(scn, ctx):
        return ctx.counters.get('pairs_compared', 0) > 0 and ctx.counters.get('identity_permutation', 0) == 0

    @staticmethod
    def sample_view(scn):
        inner = scn['inner']
        v = {'world': scn['kind'], 'channel': scn['channel'], 'tests': scn['tests'], 'cells': gen.n_cells(inner['region'])}
        if scn['kind'] == 'grid':
            v['observed_events'] = len(inner['obs'][0]['events'])
        else:
            v['catalog_sizes'] = [len(c) for c in inner['cats']]
            v['source'] = inner['config']['source']
        return v

    @staticmethod
    def rule(focus):
        return ('a base world from engine B (gridded forecast, rates with zeros, observed catalog) or engine A (catalog forecast '
                'in memory or as a file, with filters) and a twin in which one delivery channel is permuted by the run PRNG: rows '
                'of the observed catalog / assignment of synthetic catalogs to ids and positions / cells of the region together '
                'with the rate rows; 1-5 evaluations (N, NBD-N, L, CL, S, M, binary S/CL, Brier, paired T; catalog N, S, M, PL, '
                'resampled-M, MLL) run on both worlds from the same RNG state; delivery details: forecast as file or array, '
                'switched-off cells, observed catalog via JSON or re-ordered in place, seed as int / int64 / uint32, events on '
                'cell edges, shared meridians and the equator. distinct = digest of (world shape, channel, tests); '
                'non-trivial = a non-identity permutation and >= 1 compared pair')

    @staticmethod
    def components():
        return {'real': ['all public *_test functions of poisson_evaluations (except w_test: scipy API missing), binomial_evaluations '
                         '(binary S/CL, NBD-N), brier_evaluations, catalog_evaluations', 'CatalogForecast (list and streamed file)',
                         'GriddedForecast', 'CSEPCatalog gridding', 'regions'],
                'stubbed': ['numpy.random entry points (SimRandom)', 'wall clock', 'open() proxy', 'TZ', 'stdout'],
                'not_run': ['plotting', 'web clients']}

    @staticmethod
    def assumptions(focus):
        return ['"to rounding" = relative 1e-9 (1e-7 for quantiles that go through a scipy cdf)',
                'an empirical quantile is compared under catalog / cell permutations only when the observed value is not within '
                'rounding distance of a distribution entry',
                'both worlds raising the same way is a configuration outside the property (counted)']


ENGINE = Engine
