"""Command line: ./check <Cxx> --tier quick|thorough | --replay <file> | selftest ..."""
import argparse
import os
import sys

PLAN = {
    # property: (engine, quick runs, thorough runs)
    'C04': ('catsim', 40000, 300000),
    'C05': ('rngsim', 30000, 150000),
    'C06': ('rngsim', 30000, 200000),
    'C10': ('fcsim', 20000, 150000),
    'C11': ('gridsim', 30000, 300000),
    'C13': ('fcsim', 20000, 150000),
    'C14': ('persistsim', 30000, 300000),
    'C16': ('rngsim', 30000, 150000),
    'C18': ('persistsim', 12000, 100000),
    'C20': ('permsim', 20000, 200000),
}


def main(argv=None):
    ap = argparse.ArgumentParser(prog='check')
    ap.add_argument('target', nargs='?')
    ap.add_argument('--tier', default=os.environ.get('VERIF_TIER', 'quick'), choices=('quick', 'thorough'))
    ap.add_argument('--replay')
    ap.add_argument('--runs', type=int)
    ap.add_argument('--seed', type=int)
    ap.add_argument('--workers', type=int)
    ap.add_argument('--no-shrink', action='store_true')
    ap.add_argument('--digests-out')
    args, rest = ap.parse_known_args(argv)
    from . import runner
    if args.replay:
        return runner.replay(args.replay)
    if args.target == 'selftest':
        from . import selftest
        if args.runs:
            rest = rest + ['--runs', str(args.runs)]
        return selftest.main(rest)
    if args.target not in PLAN:
        print('unknown target %r; known: %s' % (args.target, ', '.join(sorted(PLAN))), file=sys.stderr)
        return 2
    seed = args.seed if args.seed is not None else int(os.environ.get('VERIF_SEED', '0') or 0)
    engine, nq, nt = PLAN[args.target]
    n = args.runs or (nq if args.tier == 'quick' else nt)
    if args.workers:
        os.environ['VERIF_WORKERS'] = str(args.workers)
    eng, results, wall, known = runner.run_batch(engine, args.target, args.tier, seed, n,
                                                 do_shrink=not args.no_shrink)
    if args.digests_out:
        import json
        with open(args.digests_out, 'w') as f:
            json.dump([r.get('digest') for r in results], f)
    return runner.summarise(engine, eng, args.target, args.tier, seed, results, wall, known)


if __name__ == '__main__':
    sys.exit(main())
