"""Self-tests of the simulator itself: determinism, seam transparency, sensitivity (mutants).

  ./check selftest determinism [--runs N] [--props C13,C06,...]
  ./check selftest transparency [--runs N]
  ./check selftest sensitivity [--only name] [--tier quick]
  ./check selftest regressions        (replays every file under findings/: fixed ones must be silent)
"""
import argparse
import glob
import json
import os
import shutil
import subprocess
import sys
import tempfile
import time

HERE = os.path.dirname(os.path.dirname(os.path.abspath(__file__)))


def _run_check(prop, runs, seed, workers, hashseed, extra_env=None, tier='quick'):
    out = tempfile.NamedTemporaryFile(prefix='dsim-dig-', suffix='.json', delete=False, dir='/dev/shm')
    out.close()
    env = dict(os.environ)
    env.update({'PYTHONHASHSEED': str(hashseed), 'VERIF_WORKERS': str(workers), 'VERIF_SCRATCH_EVIDENCE': '1'})
    env.update(extra_env or {})
    cmd = [os.path.join(HERE, 'check'), prop, '--tier', tier, '--runs', str(runs), '--seed', str(seed), '--no-shrink',
           '--digests-out', out.name]
    p = subprocess.run(cmd, env=env, stdout=subprocess.PIPE, stderr=subprocess.PIPE, text=True, timeout=3000)
    try:
        with open(out.name) as f:
            dig = json.load(f)
    except Exception:
        dig = None
    os.unlink(out.name)
    return p.returncode, dig, p.stdout, p.stderr


def determinism(argv):
    from .cli import PLAN
    ap = argparse.ArgumentParser()
    ap.add_argument('--runs', type=int, default=300)
    ap.add_argument('--props', default=','.join(sorted(PLAN)))
    ap.add_argument('--seeds', default='0,1')
    a = ap.parse_args(argv)
    bad = 0
    report = {}
    for prop in a.props.split(','):
        for seed in [int(s) for s in a.seeds.split(',')]:
            configs = [(16, 0), (1, 12345), (5, 777)]
            digs = []
            for workers, hs in configs:
                rc, dig, so, se = _run_check(prop, a.runs, seed, workers, hs)
                if dig is None:
                    print('selftest determinism: %s seed=%d workers=%d produced no digests (rc=%d)\n%s' % (
                        prop, seed, workers, rc, se[-2000:]))
                    bad += 1
                    continue
                digs.append(dig)
            ok = all(d == digs[0] for d in digs[1:]) and len(digs) == len(configs)
            ndiff = 0
            if not ok and len(digs) > 1:
                ndiff = sum(1 for i in range(len(digs[0])) if any(d[i] != digs[0][i] for d in digs[1:] if i < len(d)))
                bad += 1
            report['%s/%d' % (prop, seed)] = {'runs': a.runs, 'configs': configs, 'identical': ok, 'diverging_runs': ndiff}
            print('determinism %s seed=%d runs=%d x %d configs (workers, PYTHONHASHSEED)=%s : %s' % (
                prop, seed, a.runs, len(configs), configs, 'identical' if ok else 'DIVERGED in %d runs' % ndiff))
    os.makedirs(os.path.join(HERE, 'evidence'), exist_ok=True)
    with open(os.path.join(HERE, 'evidence', 'selftest_determinism.json'), 'w') as f:
        json.dump(report, f, indent=1, sort_keys=True)
    return 1 if bad else 0


def transparency(argv):
    """SimRandom in pass-through must be bit-identical to the un-patched global NumPy RNG."""
    ap = argparse.ArgumentParser()
    ap.add_argument('--runs', type=int, default=300)
    a = ap.parse_args(argv)
    from . import runner, build
    from .kernel import run_random, hexf
    runner.import_csep()
    import numpy
    from .engines import rngsim, fcsim
    from .seams import SimRandom, quiet
    n_cmp = 0
    bad = 0
    for idx in range(a.runs):
        R = run_random(99, 'rngsim', 'transparency', idx)
        scn = rngsim.generate(R, 'quick', 'C06')
        fc = build.make_gridded(scn)
        for op in scn['ops']:
            if op['op'] != 'TEST' or op['test'] in rngsim.CAT_TESTS or op.get('mode') == 'inject':
                continue
            seed = op['seed'] if op['seed'] is not None else 4242
            obs_events = scn['obs'][op['obs']]['events']
            counts = fcsim.grid_counts(obs_events, scn['region'], scn['mags'])
            if op['test'] in rngsim.BINARY_TESTS:
                fcn = rngsim.flat_counts(op['test'], counts)
                fr = rngsim.flat_rates(op['test'], scn['rates'])
                if int((fcn > 0).sum()) > int((fr > 0).sum()):
                    continue
            res = []
            for patched in (True, False):
                cat = build.make_catalog(obs_events, region=fc.region, name='obs')
                rng = SimRandom(initial_seed=5, budget=rngsim.HARD_CAP)
                if patched:
                    rng.install()
                try:
                    with quiet():
                        r = rngsim.call(rngsim.run_gridded_test, op['test'], fc, cat, op['nsim'], seed, None)
                finally:
                    if patched:
                        rng.remove()
                res.append(hexf([r[0], None if r[0] != 'ok' else [r[1].observed_statistic, r[1].quantile,
                                                                 list(r[1].test_distribution)]]))
            n_cmp += 1
            if res[0] != res[1]:
                bad += 1
                print('transparency: patched and un-patched results differ for %s seed=%s' % (op['test'], seed))
    print('transparency: %d evaluation pairs compared, %d differ' % (n_cmp, bad))
    with open(os.path.join(HERE, 'evidence', 'selftest_transparency.json'), 'w') as f:
        json.dump({'pairs': n_cmp, 'differ': bad}, f)
    return 1 if bad or n_cmp == 0 else 0


def _scratch_copy():
    d = tempfile.mkdtemp(prefix='pycsep-mut-', dir='/dev/shm')
    shutil.copytree('/repo/csep', os.path.join(d, 'csep'), ignore=shutil.ignore_patterns('__pycache__', 'artifacts'))
    # large data files are only linked
    art = '/repo/csep/artifacts'
    if os.path.isdir(art):
        os.symlink(art, os.path.join(d, 'csep', 'artifacts'))
    return d


def sensitivity(argv):
    """Apply each mutant (seeded/*/patch.diff and mutants/*.patch) to a scratch copy and run its property's check."""
    ap = argparse.ArgumentParser()
    ap.add_argument('--only')
    ap.add_argument('--tier', default='quick')
    ap.add_argument('--runs', type=int)
    ap.add_argument('--full', action='store_true', help='run every batch to the end even after the first violation')
    a = ap.parse_args(argv)
    items = []
    for meta in sorted(glob.glob(os.path.join(HERE, 'seeded', '*', 'meta.json'))):
        with open(meta) as f:
            m = json.load(f)
        items.append((os.path.basename(os.path.dirname(meta)), m['property'], os.path.join(os.path.dirname(meta), 'patch.diff'),
                      m.get('also', []), m.get('expected', 'caught')))
    for patch in sorted(glob.glob(os.path.join(HERE, 'mutants', '*.patch'))):
        name = os.path.basename(patch)[:-6]
        prop = name.split('-')[0]
        items.append((name, prop, patch, [], 'caught'))
    report = {}
    missed = 0
    for name, prop, patch, also, expected in items:
        if a.only and a.only not in name:
            continue
        d = _scratch_copy()
        try:
            p = subprocess.run(['patch', '-p1', '-d', d, '-i', patch, '--no-backup-if-mismatch'], stdout=subprocess.PIPE,
                               stderr=subprocess.STDOUT, text=True)
            if p.returncode != 0:
                print('sensitivity %-40s patch does not apply: %s' % (name, p.stdout[-300:]))
                report[name] = {'property': prop, 'applied': False}
                missed += 1
                continue
            caught_by = []
            detail = {}
            for pr in [prop] + list(also):
                t0 = time.time()
                env = dict(os.environ)
                env.update({'VERIF_REPO': d, 'VERIF_SCRATCH_EVIDENCE': '1'})
                if not a.full and expected != 'not_caught':
                    env['VERIF_STOP_AFTER_NEW'] = '1'       # "caught" needs one violation, not the whole batch
                cmd = [os.path.join(HERE, 'check'), pr, '--tier', a.tier, '--no-shrink']
                if a.runs:
                    cmd += ['--runs', str(a.runs)]
                q = subprocess.run(cmd, env=env, stdout=subprocess.PIPE, stderr=subprocess.PIPE, text=True, timeout=3400)
                viol = [ln for ln in q.stdout.splitlines() if ln.startswith('VIOLATION')]
                detail[pr] = {'rc': q.returncode, 'violation_classes': len(viol), 'wall_s': round(time.time() - t0, 1),
                              'first': viol[0][:200] if viol else None}
                if q.returncode == 1 and viol:
                    caught_by.append(pr)
            ok = prop in caught_by
            as_expected = ok if expected == 'caught' else (
                (not ok and any(a in caught_by for a in also)) if expected == 'caught_by_also' else not ok)
            if not as_expected:
                missed += 1
            report[name] = {'property': prop, 'applied': True, 'caught': ok, 'caught_by': caught_by, 'expected': expected,
                            'as_expected': as_expected, 'detail': detail}
            print('sensitivity %-44s %s%s  %s' % (name, 'CAUGHT' if ok else 'MISSED',
                                                  '' if expected == 'caught' else ' (expected: %s)' % expected,
                                                  json.dumps(detail)[:260]))
        finally:
            shutil.rmtree(d, ignore_errors=True)
    out = os.path.join(HERE, 'evidence', 'sensitivity.json')
    if a.only and os.path.exists(out):
        # a partial run updates the entries it re-ran and keeps the rest of the last full report
        try:
            with open(out) as f:
                merged = json.load(f)
        except ValueError:
            merged = {}
        merged.update(report)
        to_write = merged
    else:
        to_write = report
    with open(out, 'w') as f:
        json.dump(to_write, f, indent=1, sort_keys=True)
    print('sensitivity: %d mutants, %d missed' % (len(report), missed))
    return 1 if missed else 0


def regressions(argv):
    """Replays under findings/: entries marked fixed must not reproduce, entries marked known must."""
    with open(os.path.join(HERE, 'known_findings.json')) as f:
        findings = json.load(f)['findings']
    bad = 0
    for fnd in findings:
        rp = fnd.get('replay')
        if not rp:
            continue
        p = subprocess.run([os.path.join(HERE, 'check'), '--replay', os.path.join(HERE, rp)], stdout=subprocess.PIPE,
                           stderr=subprocess.PIPE, text=True, timeout=600)
        reproduced = p.returncode == 1
        want = fnd['status'] == 'known'
        ok = reproduced == want
        if not ok:
            bad += 1
        print('regression %-4s %-6s %-50s %s' % (fnd['id'], fnd['status'], rp, 'ok' if ok else
                                                 ('REPRODUCES AGAIN' if reproduced else 'does not reproduce')))
    # scenarios on which the harness itself once raised a false alarm (DESIGN section 13): they must stay silent
    for rp in sorted(glob.glob(os.path.join(HERE, 'harness_regressions', '*.json'))):
        p = subprocess.run([os.path.join(HERE, 'check'), '--replay', rp], stdout=subprocess.PIPE,
                           stderr=subprocess.PIPE, text=True, timeout=600)
        ok = p.returncode == 0
        if not ok:
            bad += 1
        print('regression %-4s %-6s %-50s %s' % ('-', 'silent', os.path.relpath(rp, HERE), 'ok' if ok else 'ALARMS AGAIN'))
    return 1 if bad else 0


def main(argv):
    if not argv:
        print(__doc__)
        return 2
    what, rest = argv[0], argv[1:]
    return {'determinism': determinism, 'transparency': transparency, 'sensitivity': sensitivity,
            'regressions': regressions}[what](rest)
