"""Builders: literal scenario data -> real csep objects, and literal files on the SimStore."""
import datetime

import numpy

from . import gen


def utc(ms):
    return datetime.datetime(1970, 1, 1, tzinfo=datetime.timezone.utc) + datetime.timedelta(milliseconds=ms)


def make_region(region, mags=None):
    from csep.core import regions
    m = None if mags is None else numpy.array(mags['edges'], dtype=int if mags.get('int') else float)
    if region['kind'] == 'cart' and region.get('mask'):
        from csep.models import Polygon
        origins = numpy.array(region['origins'], dtype=float)
        r = regions.CartesianGrid2D([Polygon(b) for b in regions.compute_vertices(origins, region['dh'])], region['dh'],
                                    mask=numpy.array(region['mask'], dtype=float), magnitudes=m, name='simgrid')
    elif region['kind'] == 'cart':
        r = regions.CartesianGrid2D.from_origins(numpy.array(region['origins'], dtype=float),
                                                 dh=region['dh'], magnitudes=m, name='simgrid')
    else:
        r = regions.QuadtreeGrid2D.from_quadkeys(list(region['quadkeys']), magnitudes=m, name='simquad')
        if m is not None:
            r.num_mag_bins = len(m)
    return r


def ev_tuple(ev):
    return (ev[0], int(ev[1]), float(ev[2]), float(ev[3]), float(ev[4]), float(ev[5]))


def make_catalog(events, region=None, catalog_id=None, name=None, as_array=False, **kw):
    """as_array: hand the events over as a structured ndarray (the other accepted input type) instead of a list"""
    from csep.core.catalogs import CSEPCatalog
    data = [ev_tuple(e) for e in events]
    if as_array:
        arr = numpy.empty(len(data), dtype=CSEPCatalog.dtype)
        for i, t in enumerate(data):
            arr[i] = t
        data = arr
    return CSEPCatalog(data=data, region=region, catalog_id=catalog_id, name=name, **kw)


def cat_rows(cat):
    """Observable content of a catalog: list of (id bytes, t, lat, lon, depth, mag) python values."""
    return [tuple(r) for r in cat.catalog.tolist()]


def cat_fingerprint(cat):
    c = cat.catalog
    if c is None:
        return None
    return (c.dtype.str, c.tobytes())


def write_forecast_csv(path, cats, encoding):
    """CSEP catalog-forecast CSV: lon,lat,mag,time_string,depth,catalog_id,event_id.

    encoding: {'header': bool, 'placeholders': bool (empty catalogs as placeholder rows vs omitted),
               'fraction': bool (time strings with fractional seconds)}
    The final catalog id is always present (placeholder row if that catalog is empty).
    """
    lines = []
    if encoding.get('header'):
        lines.append('lon,lat,mag,time_string,depth,catalog_id,event_id')
    n = len(cats)
    for cid, events in enumerate(cats):
        if not events:
            if encoding.get('placeholders') or cid == n - 1:
                lines.append(',,,,,%d,' % cid)
            continue
        for ev in events:
            frac = encoding.get('fraction', True) or (ev[1] % 1000 != 0)
            lines.append('%r,%r,%r,%s,%r,%d,%s' % (float(ev[3]), float(ev[2]), float(ev[5]),
                                                  gen.time_string(ev[1], fraction=frac), float(ev[4]),
                                                  cid, ev[0]))
    with open(path, 'w', newline='') as f:
        f.write('\n'.join(lines) + '\n')


def make_gridded(world, rates=None, name='simfore'):
    """GriddedForecast on the world's region with literal rates (n_cells x n_mags)."""
    from csep.core.forecasts import GriddedForecast
    region = make_region(world['region'], world['mags'])
    data = numpy.array(world['rates'] if rates is None else rates, dtype=world.get('rates_dtype', 'float64'))
    # memory layout is a delivery detail: the same logical array may arrive Fortran-ordered or as a transposed view
    layout = world.get('layout', 'C')
    if layout == 'F':
        data = numpy.asfortranarray(data)
    elif layout == 'T':
        data = numpy.ascontiguousarray(data.T).T
    fc = GriddedForecast(start_time=utc(world.get('start_ms', gen.T0_MS)).replace(tzinfo=None),
                         end_time=utc(world.get('end_ms', gen.T0_MS + gen.YEAR_MS)).replace(tzinfo=None),
                         data=data, region=region,
                         magnitudes=numpy.array(world['mags']['edges'], dtype=int if world['mags'].get('int') else float),
                         name=None if world.get('unnamed') else name)
    return fc


def write_world_dat(path, world):
    """CSEP gridded-forecast .dat file of a literal world (cells in world order; flag 0 for masked cells)."""
    dm = world['mags']['dm']
    dh = world['region']['dh']
    lines = []
    mask = world['region'].get('mask') or [1] * len(world['region']['origins'])
    for o, row, fl in zip(world['region']['origins'], world['rates'], mask):
        for k, m0 in enumerate(world['mags']['edges']):
            lines.append('%r %r %r %r 0.0 30.0 %r %r %r %d' % (o[0], gen.dec(o[0] + dh), o[1], gen.dec(o[1] + dh), m0,
                                                             gen.dec(m0 + dm, 4), row[k], fl))
    with open(path, 'w') as f:
        f.write('\n'.join(lines) + '\n')


def load_world_dat(path, world):
    import csep
    write_world_dat(path, world)
    return csep.load_gridded_forecast(path, start_date=utc(world['start_ms']).replace(tzinfo=None),
                                      end_date=utc(world['end_ms']).replace(tzinfo=None))
