"""Kernel: seed derivation, run context (event log / counters / violations), value rendering.

Nothing in here draws random numbers or reads a clock while logging.
"""
import hashlib
import json
import math
import random

MASK = (1 << 64) - 1


def splitmix64(x):
    x = (x + 0x9E3779B97F4A7C15) & MASK
    z = x
    z = ((z ^ (z >> 30)) * 0xBF58476D1CE4E5B9) & MASK
    z = ((z ^ (z >> 27)) * 0x94D049BB133111EB) & MASK
    return z ^ (z >> 31)


def hash64(s):
    return int.from_bytes(hashlib.sha256(s.encode()).digest()[:8], 'big')


def run_random(seed, engine, focus, run_idx):
    """The one PRNG of a run. Everything generated for the run is drawn from it."""
    master = splitmix64(seed & MASK)
    v = splitmix64(master ^ hash64(engine + '/' + focus) ^ splitmix64(run_idx))
    return random.Random(v)


class HarnessError(Exception):
    """The harness itself is broken or lost control (never a VIOLATION, never exit 0)."""


class SimBudgetExceeded(BaseException):
    """A deterministic step budget (RNG draws, iterator steps) was exhausted."""

    def __init__(self, what, n):
        super().__init__(f'{what} budget exceeded after {n}')
        self.what = what
        self.n = n


def hexf(v):
    """Render a value so that two renderings are equal iff the values are bit-identical."""
    import numpy
    if v is None:
        return 'None'
    if isinstance(v, (bool, numpy.bool_)):
        return 'b%d' % int(v)
    if isinstance(v, (int, numpy.integer)):
        return 'i%d' % int(v)
    if isinstance(v, (float, numpy.floating)):
        f = float(v)
        if math.isnan(f):
            return 'nan'
        return f.hex()
    if isinstance(v, (bytes, numpy.bytes_)):
        return 'y' + bytes(v).hex()
    if isinstance(v, str):
        return 's' + v
    if isinstance(v, numpy.ma.MaskedArray):
        return 'M[' + hexf(numpy.ma.getdata(v)) + '|' + hexf(numpy.ma.getmaskarray(v)) + ']'
    if isinstance(v, numpy.ndarray):
        if v.dtype.kind == 'f':
            return 'A%s[%s]' % (v.shape, ','.join(hexf(x) for x in v.ravel().tolist()))
        return 'A%s%s[%s]' % (v.dtype.str, v.shape, v.tobytes().hex())
    if isinstance(v, (list, tuple)):
        return '(' + ','.join(hexf(x) for x in v) + ')'
    if isinstance(v, dict):
        return '{' + ','.join('%s:%s' % (k, hexf(v[k])) for k in sorted(v)) + '}'
    return 'r' + repr(v)


def jsonable(v):
    """Literal, JSON-serialisable form (floats keep full precision via repr)."""
    import numpy
    if v is None or isinstance(v, (str, bool)):
        return v
    if isinstance(v, numpy.bool_):
        return bool(v)
    if isinstance(v, (int, numpy.integer)):
        return int(v)
    if isinstance(v, (float, numpy.floating)):
        f = float(v)
        if math.isnan(f) or math.isinf(f):
            return repr(f)
        return f
    if isinstance(v, (bytes, numpy.bytes_)):
        return bytes(v).decode('latin-1')
    if isinstance(v, numpy.ndarray):
        return jsonable(v.tolist())
    if isinstance(v, (list, tuple)):
        return [jsonable(x) for x in v]
    if isinstance(v, dict):
        return {str(k): jsonable(v[k]) for k in sorted(v, key=str)}
    return repr(v)


class Violation(dict):
    """{'property','oracle','signature','detail'}; class = (property, oracle, signature)."""

    @property
    def key(self):
        return (self['property'], self['oracle'], self['signature'])


class Ctx:
    """Per-run context handed to an engine's execute()."""

    def __init__(self, focus=None, probes=False):
        self.focus = focus
        self.probes = probes
        self._h = hashlib.sha256()
        self.n_events = 0
        self.counters = {}
        self.violations = []
        self.states = set()
        self.transitions = set()
        self.sim_time_ms = 0
        self.keep_log = False
        self.events = []
        self._seen = set()

    # --- event log (determinism digest) ---
    def log(self, tag, *vals):
        line = tag + '|' + '|'.join(hexf(v) for v in vals)
        self._h.update(line.encode())
        self._h.update(b'\n')
        self.n_events += 1
        if self.keep_log:
            self.events.append(line)

    def digest(self):
        return self._h.hexdigest()

    # --- counters / coverage ---
    def count(self, name, n=1):
        self.counters[name] = self.counters.get(name, 0) + n

    def state(self, st):
        self.states.add(st)

    def transition(self, a, label, b):
        self.transitions.add((a, label, b))

    # --- verdicts ---
    def violate(self, prop, oracle, signature, detail=None):
        key = (prop, oracle, signature)
        self.log('VIOLATION', prop, oracle, signature)
        if key in self._seen:
            return
        self._seen.add(key)
        self.violations.append(Violation(property=prop, oracle=oracle, signature=signature,
                                         detail=jsonable(detail)))

    def wants(self, prop):
        """Engines may skip oracles of properties other than the focus to save time."""
        return self.focus is None or self.focus == prop or self.focus == 'ALL'


def canonical_json(obj):
    return json.dumps(obj, sort_keys=True, separators=(',', ':'))


def shape_digest(obj):
    return hashlib.sha256(canonical_json(obj).encode()).hexdigest()[:16]
